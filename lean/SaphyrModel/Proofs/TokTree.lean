import SaphyrModel.Api
/-! The token language of node trees and what the parser makes of it (used by Props/C03, C13).

`TT` is a node tree together with the span of every token that presents it: scalars, flow
sequences `[ a , b ]`, flow mappings `{ k : v , … }`, block sequences `- a` and block mappings
`k : v` in their full forms (every key has its `Key` token, every value its `Value` token). -/
namespace SaphyrModel.TokTree
open SaphyrModel

mutual
inductive TT
  | scalar (sp : Span) (style : ScalarStyle) (v : Str)
  | flowSeq (s e : Span) (items : Items)
  | flowMap (s e : Span) (pairs : Pairs)
  | blockSeq (s e : Span) (items : Items)
  | blockMap (s e : Span) (pairs : Pairs)
/-- items with the span of the separator token in front of each (`,` or `-`) -/
inductive Items
  | nil
  | cons (sep : Span) (t : TT) (rest : Items)
/-- pairs with the spans of `,` (flow only), the `Key` token and the `Value` token -/
inductive Pairs
  | nil
  | cons (sepEntry sepKey : Span) (k : TT) (sepVal : Span) (v : TT) (rest : Pairs)
end

mutual
/-- may occur inside a flow collection -/
def TT.flowOnly : TT → Bool
  | .scalar .. => true
  | .flowSeq _ _ is => is.flowOnly
  | .flowMap _ _ ps => ps.flowOnly
  | .blockSeq .. => false
  | .blockMap .. => false
def Items.flowOnly : Items → Bool
  | .nil => true
  | .cons _ t r => t.flowOnly && r.flowOnly
def Pairs.flowOnly : Pairs → Bool
  | .nil => true
  | .cons _ _ k _ v r => k.flowOnly && v.flowOnly && r.flowOnly
end

mutual
/-- well formed: flow collections contain flow nodes only -/
def TT.wf : TT → Bool
  | .scalar .. => true
  | .flowSeq _ _ is => is.flowOnly && is.wf
  | .flowMap _ _ ps => ps.flowOnly && ps.wf
  | .blockSeq _ _ is => is.wf
  | .blockMap _ _ ps => ps.wf
def Items.wf : Items → Bool
  | .nil => true
  | .cons _ t r => t.wf && r.wf
def Pairs.wf : Pairs → Bool
  | .nil => true
  | .cons _ _ k _ v r => k.wf && v.wf && r.wf
end

mutual
/-- the tokens that present a tree -/
def TT.toks : TT → List Token
  | .scalar sp st v => [⟨sp, .scalar st v⟩]
  | .flowSeq s e is => ⟨s, .flowSequenceStart⟩ :: (is.flowToks true ++ [⟨e, .flowSequenceEnd⟩])
  | .flowMap s e ps => ⟨s, .flowMappingStart⟩ :: (ps.flowToks true ++ [⟨e, .flowMappingEnd⟩])
  | .blockSeq s e is => ⟨s, .blockSequenceStart⟩ :: (is.blockToks ++ [⟨e, .blockEnd⟩])
  | .blockMap s e ps => ⟨s, .blockMappingStart⟩ :: (ps.blockToks ++ [⟨e, .blockEnd⟩])
def Items.flowToks : Bool → Items → List Token
  | _, .nil => []
  | first, .cons sep t r => (if first then [] else [⟨sep, .flowEntry⟩]) ++ t.toks ++ r.flowToks false
def Items.blockToks : Items → List Token
  | .nil => []
  | .cons sep t r => ⟨sep, .blockEntry⟩ :: (t.toks ++ r.blockToks)
def Pairs.flowToks : Bool → Pairs → List Token
  | _, .nil => []
  | first, .cons se sk k sv v r =>
    (if first then [] else [⟨se, .flowEntry⟩]) ++ ⟨sk, .key⟩ :: (k.toks ++ ⟨sv, .value⟩ :: (v.toks ++ r.flowToks false))
def Pairs.blockToks : Pairs → List Token
  | .nil => []
  | .cons _ sk k sv v r => ⟨sk, .key⟩ :: (k.toks ++ ⟨sv, .value⟩ :: (v.toks ++ r.blockToks))
end

mutual
/-- the events a tree denotes (`flatten`), with the spans the parser copies from the tokens -/
def TT.events : TT → List (Event × Span)
  | .scalar sp st v => [(.scalar v st 0 none, sp)]
  | .flowSeq s e is => (.sequenceStart 0 none, s) :: (is.events ++ [(.sequenceEnd, e)])
  | .flowMap s e ps => (.mappingStart 0 none, s) :: (ps.events ++ [(.mappingEnd, e)])
  | .blockSeq s e is => (.sequenceStart 0 none, s) :: (is.events ++ [(.sequenceEnd, e)])
  | .blockMap s e ps => (.mappingStart 0 none, s) :: (ps.events ++ [(.mappingEnd, e)])
def Items.events : Items → List (Event × Span)
  | .nil => []
  | .cons _ t r => t.events ++ r.events
def Pairs.events : Pairs → List (Event × Span)
  | .nil => []
  | .cons _ _ k _ v r => k.events ++ v.events ++ r.events
end

/-- run the state machine for `n` events -/
def steps : Nat → PState → Res (List (Event × Span) × PState)
  | 0, p => .ok ([], p)
  | n + 1, p =>
    match parseStep p with
    | .ok (e, sp, p') =>
      match steps n p' with
      | .ok (es, p'') => .ok ((e, sp) :: es, p'')
      | .err x => .err x
      | .panic x => .panic x
    | .err x => .err x
    | .panic x => .panic x

theorem steps_add (a b : Nat) (p : PState) (ea : List (Event × Span)) (pa : PState)
    (h : steps a p = .ok (ea, pa)) :
    steps (a + b) p = match steps b pa with
      | .ok (eb, pb) => .ok (ea ++ eb, pb) | .err x => .err x | .panic x => .panic x := by
  induction a generalizing p ea with
  | zero =>
    simp only [steps, Res.ok.injEq, Prod.mk.injEq] at h
    obtain ⟨rfl, rfl⟩ := h
    simp only [Nat.zero_add, List.nil_append]
    cases steps b p with
    | ok r => rfl
    | err x => rfl
    | panic x => rfl
  | succ n ih =>
    rw [Nat.add_right_comm]
    simp only [steps] at h ⊢
    cases hp : parseStep p with
    | err x => simp [hp] at h
    | panic x => simp [hp] at h
    | ok o =>
      obtain ⟨e, sp, p'⟩ := o
      simp only [hp] at h ⊢
      cases hs : steps n p' with
      | err x => simp [hs] at h
      | panic x => simp [hs] at h
      | ok r =>
        obtain ⟨es, p''⟩ := r
        simp only [hs, Res.ok.injEq, Prod.mk.injEq] at h
        obtain ⟨rfl, rfl⟩ := h
        rw [ih p' es hs]
        cases steps b p'' with
        | ok r => rfl
        | err x => rfl
        | panic x => rfl

end SaphyrModel.TokTree

namespace SaphyrModel.TokTree
open SaphyrModel

/-- the parser state `p` with its control part replaced -/
def at' (p : PState) (toks : List Token) (st : State) (sts : List State) : PState :=
  { p with toks := toks, state := st, states := sts }

@[simp] theorem at_at (p : PState) (a b c d e f) : at' (at' p a b c) d e f = at' p d e f := rfl
@[simp] theorem at_toks (p : PState) (a b c) : (at' p a b c).toks = a := rfl
@[simp] theorem at_state (p : PState) (a b c) : (at' p a b c).state = b := rfl
@[simp] theorem at_states (p : PState) (a b c) : (at' p a b c).states = c := rfl
@[simp] theorem pushState_at (p : PState) (a b c s) : pushState (at' p a b c) s = at' p a b (s :: c) := rfl
@[simp] theorem skipTok_at (p : PState) (t a b c) : skipTok (at' p (t :: a) b c) = at' p a b c := rfl
@[simp] theorem at_withState (p : PState) (a b c s) : { at' p a b c with state := s } = at' p a s c := rfl

/-- token types a node can start with (in this token language) -/
def nodeStart : TokenType → Bool
  | .scalar .. | .flowSequenceStart | .flowMappingStart | .blockSequenceStart | .blockMappingStart => true
  | _ => false

theorem TT.toks_head (t : TT) : ∃ tok tl, t.toks = tok :: tl ∧ nodeStart tok.ty = true := by
  cases t <;> exact ⟨_, _, rfl, rfl⟩

-- the first event of a node ----------------------------------------------------------------------

theorem node_scalar (p : PState) (b i : Bool) (sp st v rest bst k ks) :
    parseNode (at' p (⟨sp, .scalar st v⟩ :: rest) bst (k :: ks)) b i =
      .ok (.scalar v st 0 none, sp, at' p rest k ks) := by
  simp [parseNode, peekTok, parseNodeContent, popState, skipTok, at']
theorem node_flowSeq (p : PState) (b i : Bool) (s rest bst sts) :
    parseNode (at' p (⟨s, .flowSequenceStart⟩ :: rest) bst sts) b i =
      .ok (.sequenceStart 0 none, s, at' p (⟨s, .flowSequenceStart⟩ :: rest) .flowSequenceFirstEntry sts) := by
  simp [parseNode, peekTok, parseNodeContent, at']
theorem node_flowMap (p : PState) (b i : Bool) (s rest bst sts) :
    parseNode (at' p (⟨s, .flowMappingStart⟩ :: rest) bst sts) b i =
      .ok (.mappingStart 0 none, s, at' p (⟨s, .flowMappingStart⟩ :: rest) .flowMappingFirstKey sts) := by
  simp [parseNode, peekTok, parseNodeContent, at']
theorem node_blockSeq (p : PState) (i : Bool) (s rest bst sts) :
    parseNode (at' p (⟨s, .blockSequenceStart⟩ :: rest) bst sts) true i =
      .ok (.sequenceStart 0 none, s, at' p (⟨s, .blockSequenceStart⟩ :: rest) .blockSequenceFirstEntry sts) := by
  simp [parseNode, peekTok, parseNodeContent, at']
theorem node_blockMap (p : PState) (i : Bool) (s rest bst sts) :
    parseNode (at' p (⟨s, .blockMappingStart⟩ :: rest) bst sts) true i =
      .ok (.mappingStart 0 none, s, at' p (⟨s, .blockMappingStart⟩ :: rest) .blockMappingFirstKey sts) := by
  simp [parseNode, peekTok, parseNodeContent, at']

-- dispatch of the collection states ---------------------------------------------------------------

set_option hygiene false in
macro "dispatch" : tactic => `(tactic|
  (obtain ⟨sp0, ty0⟩ := tok
   cases ty0 <;> simp [nodeStart] at h <;>
     simp [parseStep, flowSequenceEntry, flowMappingKey, flowMappingValue, blockSequenceEntry, blockMappingKey,
       blockMappingValue, skipFirst, requireFlowEntry, peekTok, skipTok, popState, pushState, Bind.bind, Pure.pure, at']))

theorem fseq_first_end (p : PState) (s e rest k ks) :
    parseStep (at' p (⟨s, .flowSequenceStart⟩ :: ⟨e, .flowSequenceEnd⟩ :: rest) .flowSequenceFirstEntry (k :: ks)) =
      .ok (.sequenceEnd, e, at' p rest k ks) := by
  simp [parseStep, flowSequenceEntry, skipFirst, peekTok, skipTok, popState, Bind.bind, Pure.pure, at']
theorem fseq_end (p : PState) (e rest k ks) :
    parseStep (at' p (⟨e, .flowSequenceEnd⟩ :: rest) .flowSequenceEntry (k :: ks)) =
      .ok (.sequenceEnd, e, at' p rest k ks) := by
  simp [parseStep, flowSequenceEntry, skipFirst, peekTok, skipTok, popState, Bind.bind, Pure.pure, at']
theorem fseq_first_item (p : PState) (s tok tl sts) (h : nodeStart tok.ty = true) :
    parseStep (at' p (⟨s, .flowSequenceStart⟩ :: tok :: tl) .flowSequenceFirstEntry sts) =
      parseNode (at' p (tok :: tl) .flowSequenceFirstEntry (.flowSequenceEntry :: sts)) false false := by
  dispatch
theorem fseq_item (p : PState) (sep tok tl sts) (h : nodeStart tok.ty = true) :
    parseStep (at' p (⟨sep, .flowEntry⟩ :: tok :: tl) .flowSequenceEntry sts) =
      parseNode (at' p (tok :: tl) .flowSequenceEntry (.flowSequenceEntry :: sts)) false false := by
  dispatch

theorem fmap_first_end (p : PState) (s e rest k ks) :
    parseStep (at' p (⟨s, .flowMappingStart⟩ :: ⟨e, .flowMappingEnd⟩ :: rest) .flowMappingFirstKey (k :: ks)) =
      .ok (.mappingEnd, e, at' p rest k ks) := by
  simp [parseStep, flowMappingKey, skipFirst, peekTok, skipTok, popState, Bind.bind, Pure.pure, at']
theorem fmap_end (p : PState) (e rest k ks) :
    parseStep (at' p (⟨e, .flowMappingEnd⟩ :: rest) .flowMappingKey (k :: ks)) =
      .ok (.mappingEnd, e, at' p rest k ks) := by
  simp [parseStep, flowMappingKey, skipFirst, peekTok, skipTok, popState, Bind.bind, Pure.pure, at']
theorem fmap_first_key (p : PState) (s sk tok tl sts) (h : nodeStart tok.ty = true) :
    parseStep (at' p (⟨s, .flowMappingStart⟩ :: ⟨sk, .key⟩ :: tok :: tl) .flowMappingFirstKey sts) =
      parseNode (at' p (tok :: tl) .flowMappingFirstKey (.flowMappingValue :: sts)) false false := by
  dispatch
theorem fmap_key (p : PState) (se sk tok tl sts) (h : nodeStart tok.ty = true) :
    parseStep (at' p (⟨se, .flowEntry⟩ :: ⟨sk, .key⟩ :: tok :: tl) .flowMappingKey sts) =
      parseNode (at' p (tok :: tl) .flowMappingKey (.flowMappingValue :: sts)) false false := by
  dispatch
theorem fmap_value (p : PState) (sv tok tl sts) (h : nodeStart tok.ty = true) :
    parseStep (at' p (⟨sv, .value⟩ :: tok :: tl) .flowMappingValue sts) =
      parseNode (at' p (tok :: tl) .flowMappingValue (.flowMappingKey :: sts)) false false := by
  dispatch

theorem bseq_first_end (p : PState) (s e rest k ks) :
    parseStep (at' p (⟨s, .blockSequenceStart⟩ :: ⟨e, .blockEnd⟩ :: rest) .blockSequenceFirstEntry (k :: ks)) =
      .ok (.sequenceEnd, e, at' p rest k ks) := by
  simp [parseStep, blockSequenceEntry, skipFirst, peekTok, skipTok, popState, Bind.bind, Pure.pure, at']
theorem bseq_end (p : PState) (e rest k ks) :
    parseStep (at' p (⟨e, .blockEnd⟩ :: rest) .blockSequenceEntry (k :: ks)) =
      .ok (.sequenceEnd, e, at' p rest k ks) := by
  simp [parseStep, blockSequenceEntry, skipFirst, peekTok, skipTok, popState, Bind.bind, Pure.pure, at']
theorem bseq_first_item (p : PState) (s sep tok tl sts) (h : nodeStart tok.ty = true) :
    parseStep (at' p (⟨s, .blockSequenceStart⟩ :: ⟨sep, .blockEntry⟩ :: tok :: tl) .blockSequenceFirstEntry sts) =
      parseNode (at' p (tok :: tl) .blockSequenceFirstEntry (.blockSequenceEntry :: sts)) true false := by
  dispatch
theorem bseq_item (p : PState) (sep tok tl sts) (h : nodeStart tok.ty = true) :
    parseStep (at' p (⟨sep, .blockEntry⟩ :: tok :: tl) .blockSequenceEntry sts) =
      parseNode (at' p (tok :: tl) .blockSequenceEntry (.blockSequenceEntry :: sts)) true false := by
  dispatch

theorem bmap_first_end (p : PState) (s e rest k ks) :
    parseStep (at' p (⟨s, .blockMappingStart⟩ :: ⟨e, .blockEnd⟩ :: rest) .blockMappingFirstKey (k :: ks)) =
      .ok (.mappingEnd, e, at' p rest k ks) := by
  simp [parseStep, blockMappingKey, skipFirst, peekTok, skipTok, popState, Bind.bind, Pure.pure, at']
theorem bmap_end (p : PState) (e rest k ks) :
    parseStep (at' p (⟨e, .blockEnd⟩ :: rest) .blockMappingKey (k :: ks)) =
      .ok (.mappingEnd, e, at' p rest k ks) := by
  simp [parseStep, blockMappingKey, skipFirst, peekTok, skipTok, popState, Bind.bind, Pure.pure, at']
theorem bmap_first_key (p : PState) (s sk tok tl sts) (h : nodeStart tok.ty = true) :
    parseStep (at' p (⟨s, .blockMappingStart⟩ :: ⟨sk, .key⟩ :: tok :: tl) .blockMappingFirstKey sts) =
      parseNode (at' p (tok :: tl) .blockMappingFirstKey (.blockMappingValue :: sts)) true true := by
  dispatch
theorem bmap_key (p : PState) (sk tok tl sts) (h : nodeStart tok.ty = true) :
    parseStep (at' p (⟨sk, .key⟩ :: tok :: tl) .blockMappingKey sts) =
      parseNode (at' p (tok :: tl) .blockMappingKey (.blockMappingValue :: sts)) true true := by
  dispatch
theorem bmap_value (p : PState) (sv tok tl sts) (h : nodeStart tok.ty = true) :
    parseStep (at' p (⟨sv, .value⟩ :: tok :: tl) .blockMappingValue sts) =
      parseNode (at' p (tok :: tl) .blockMappingValue (.blockMappingKey :: sts)) true true := by
  dispatch

end SaphyrModel.TokTree

namespace SaphyrModel.TokTree
open SaphyrModel

theorem steps_cons {p p1 p2 : PState} {e : Event} {sp : Span} {n : Nat} {es : List (Event × Span)}
    (h1 : parseStep p = .ok (e, sp, p1)) (h2 : steps n p1 = .ok (es, p2)) :
    steps (n + 1) p = .ok ((e, sp) :: es, p2) := by
  simp only [steps, h1, h2]

theorem steps_one {p p1 : PState} {e : Event} {sp : Span} (h1 : parseStep p = .ok (e, sp, p1)) :
    steps 1 p = .ok ([(e, sp)], p1) := steps_cons h1 rfl

theorem steps_append {a b : Nat} {p pa pb : PState} {ea eb : List (Event × Span)}
    (h1 : steps a p = .ok (ea, pa)) (h2 : steps b pa = .ok (eb, pb)) :
    steps (a + b) p = .ok (ea ++ eb, pb) := by
  rw [steps_add a b p ea pa h1, h2]

theorem TT.events_pos (t : TT) : 1 ≤ t.events.length := by
  cases t <;> simp [TT.events]

/-- what it means that the parser reads a node: started by `parse_node` on the node's tokens (with
    the continuation `k` on the state stack), the machine emits exactly the node's events and ends
    in state `k` in front of the remaining tokens, nothing else changed -/
def Parses (t : TT) (b : Bool) : Prop :=
  ∀ (p : PState) (i : Bool) (rest : List Token) (bst k : State) (ks : List State),
    ∃ e sp p1 es, parseNode (at' p (t.toks ++ rest) bst (k :: ks)) b i = .ok (e, sp, p1) ∧
      steps (t.events.length - 1) p1 = .ok (es, at' p rest k ks) ∧ (e, sp) :: es = t.events

/-- a node whose first event comes from `parse_node` called by a collection state -/
theorem run_node {t : TT} {b : Bool} (ht : Parses t b) {p0 : PState} (p : PState) (i : Bool)
    (rest : List Token) (bst k : State) (ks : List State)
    (hstep : parseStep p0 = parseNode (at' p (t.toks ++ rest) bst (k :: ks)) b i) :
    steps t.events.length p0 = .ok (t.events, at' p rest k ks) := by
  obtain ⟨e, sp, p1, es, h1, h2, h3⟩ := ht p i rest bst k ks
  have := steps_cons (hstep.trans h1) h2
  have hp := TT.events_pos t
  rw [Nat.sub_add_cancel hp, h3] at this
  exact this

mutual
theorem TT.parses (t : TT) (hw : t.wf = true) (b : Bool) (hb : b = true ∨ t.flowOnly = true) : Parses t b := by
  intro p i rest bst k ks
  cases t with
  | scalar sp st v =>
    exact ⟨_, _, _, [], node_scalar p b i sp st v rest bst k ks, rfl, rfl⟩
  | flowSeq s e is =>
    simp only [TT.wf, Bool.and_eq_true] at hw
    refine ⟨_, _, _, _, node_flowSeq p b i s _ bst (k :: ks), ?_, rfl⟩
    have := Items.flowParses is hw.2 hw.1 p true s e rest k ks
    simp only [TT.events, List.length_cons, List.length_append, List.length_nil, Nat.add_sub_cancel]
    simpa [List.append_assoc] using this
  | flowMap s e ps =>
    simp only [TT.wf, Bool.and_eq_true] at hw
    refine ⟨_, _, _, _, node_flowMap p b i s _ bst (k :: ks), ?_, rfl⟩
    have := Pairs.flowParses ps hw.2 hw.1 p true s e rest k ks
    simp only [TT.events, List.length_cons, List.length_append, List.length_nil, Nat.add_sub_cancel]
    simpa [List.append_assoc] using this
  | blockSeq s e is =>
    have hbt : b = true := by rcases hb with h | h; exact h; simp [TT.flowOnly] at h
    subst hbt
    simp only [TT.wf] at hw
    refine ⟨_, _, _, _, node_blockSeq p i s _ bst (k :: ks), ?_, rfl⟩
    have := Items.blockParses is hw p true s e rest k ks
    simp only [TT.events, List.length_cons, List.length_append, List.length_nil, Nat.add_sub_cancel]
    simpa [List.append_assoc] using this
  | blockMap s e ps =>
    have hbt : b = true := by rcases hb with h | h; exact h; simp [TT.flowOnly] at h
    subst hbt
    simp only [TT.wf] at hw
    refine ⟨_, _, _, _, node_blockMap p i s _ bst (k :: ks), ?_, rfl⟩
    have := Pairs.blockParses ps hw p true s e rest k ks
    simp only [TT.events, List.length_cons, List.length_append, List.length_nil, Nat.add_sub_cancel]
    simpa [List.append_assoc] using this

theorem Items.flowParses (is : Items) (hw : is.wf = true) (hf : is.flowOnly = true) (p : PState) (first : Bool)
    (s e : Span) (rest : List Token) (k : State) (ks : List State) :
    steps (is.events.length + 1)
      (at' p ((if first then [⟨s, .flowSequenceStart⟩] else []) ++ (is.flowToks first ++ ⟨e, .flowSequenceEnd⟩ :: rest))
        (if first then .flowSequenceFirstEntry else .flowSequenceEntry) (k :: ks)) =
      .ok (is.events ++ [(.sequenceEnd, e)], at' p rest k ks) := by
  cases is with
  | nil =>
    cases first
    · exact steps_one (fseq_end p e rest k ks)
    · exact steps_one (fseq_first_end p s e rest k ks)
  | cons sep t r =>
    simp only [Items.wf, Items.flowOnly, Bool.and_eq_true] at hw hf
    obtain ⟨tok, tl, htk, hn⟩ := TT.toks_head t
    have ht := TT.parses t hw.1 false (Or.inr hf.1)
    have hr := Items.flowParses r hw.2 hf.2 p false s e rest k ks
    simp only [Bool.false_eq_true, ↓reduceIte, List.nil_append] at hr
    have hrun : ∀ p0, parseStep p0 = parseNode (at' p (t.toks ++ (r.flowToks false ++ ⟨e, .flowSequenceEnd⟩ :: rest))
          (if first then .flowSequenceFirstEntry else .flowSequenceEntry) (.flowSequenceEntry :: k :: ks)) false false →
        steps ((Items.cons sep t r).events.length + 1) p0 =
          .ok ((Items.cons sep t r).events ++ [(.sequenceEnd, e)], at' p rest k ks) := by
      intro p0 h0
      have h1 := run_node ht p false _ _ .flowSequenceEntry (k :: ks) h0
      have := steps_append h1 hr
      simp only [Items.events, List.length_append, List.append_assoc] at this ⊢
      rw [Nat.add_assoc]; exact this
    apply hrun
    cases first
    · simp only [Bool.false_eq_true, ↓reduceIte, List.nil_append, Items.flowToks, List.singleton_append,
        List.cons_append, List.append_assoc, htk]
      exact fseq_item p sep tok _ (k :: ks) hn
    · simp only [↓reduceIte, Items.flowToks, List.nil_append, List.singleton_append, List.cons_append,
        List.append_assoc, htk]
      exact fseq_first_item p s tok _ (k :: ks) hn

theorem Items.blockParses (is : Items) (hw : is.wf = true) (p : PState) (first : Bool)
    (s e : Span) (rest : List Token) (k : State) (ks : List State) :
    steps (is.events.length + 1)
      (at' p ((if first then [⟨s, .blockSequenceStart⟩] else []) ++ (is.blockToks ++ ⟨e, .blockEnd⟩ :: rest))
        (if first then .blockSequenceFirstEntry else .blockSequenceEntry) (k :: ks)) =
      .ok (is.events ++ [(.sequenceEnd, e)], at' p rest k ks) := by
  cases is with
  | nil =>
    cases first
    · exact steps_one (bseq_end p e rest k ks)
    · exact steps_one (bseq_first_end p s e rest k ks)
  | cons sep t r =>
    simp only [Items.wf, Bool.and_eq_true] at hw
    obtain ⟨tok, tl, htk, hn⟩ := TT.toks_head t
    have ht := TT.parses t hw.1 true (Or.inl rfl)
    have hr := Items.blockParses r hw.2 p false s e rest k ks
    simp only [Bool.false_eq_true, ↓reduceIte, List.nil_append] at hr
    have hrun : ∀ p0, parseStep p0 = parseNode (at' p (t.toks ++ (r.blockToks ++ ⟨e, .blockEnd⟩ :: rest))
          (if first then .blockSequenceFirstEntry else .blockSequenceEntry) (.blockSequenceEntry :: k :: ks)) true false →
        steps ((Items.cons sep t r).events.length + 1) p0 =
          .ok ((Items.cons sep t r).events ++ [(.sequenceEnd, e)], at' p rest k ks) := by
      intro p0 h0
      have h1 := run_node ht p false _ _ .blockSequenceEntry (k :: ks) h0
      have := steps_append h1 hr
      simp only [Items.events, List.length_append, List.append_assoc] at this ⊢
      rw [Nat.add_assoc]; exact this
    apply hrun
    cases first
    · simp only [Bool.false_eq_true, ↓reduceIte, List.nil_append, Items.blockToks, List.cons_append,
        List.append_assoc, htk]
      exact bseq_item p sep tok _ (k :: ks) hn
    · simp only [↓reduceIte, Items.blockToks, List.singleton_append, List.cons_append, List.append_assoc, htk]
      exact bseq_first_item p s sep tok _ (k :: ks) hn

theorem Pairs.flowParses (ps : Pairs) (hw : ps.wf = true) (hf : ps.flowOnly = true) (p : PState) (first : Bool)
    (s e : Span) (rest : List Token) (k : State) (ks : List State) :
    steps (ps.events.length + 1)
      (at' p ((if first then [⟨s, .flowMappingStart⟩] else []) ++ (ps.flowToks first ++ ⟨e, .flowMappingEnd⟩ :: rest))
        (if first then .flowMappingFirstKey else .flowMappingKey) (k :: ks)) =
      .ok (ps.events ++ [(.mappingEnd, e)], at' p rest k ks) := by
  cases ps with
  | nil =>
    cases first
    · exact steps_one (fmap_end p e rest k ks)
    · exact steps_one (fmap_first_end p s e rest k ks)
  | cons se sk kk sv v r =>
    simp only [Pairs.wf, Pairs.flowOnly, Bool.and_eq_true] at hw hf
    obtain ⟨tokk, tlk, htk, hnk⟩ := TT.toks_head kk
    obtain ⟨tokv, tlv, htv, hnv⟩ := TT.toks_head v
    have hk := TT.parses kk hw.1.1 false (Or.inr hf.1.1)
    have hv := TT.parses v hw.1.2 false (Or.inr hf.1.2)
    have hr := Pairs.flowParses r hw.2 hf.2 p false s e rest k ks
    simp only [Bool.false_eq_true, ↓reduceIte, List.nil_append] at hr
    -- the value, then the remaining pairs
    have hval : steps (v.events.length + (r.events.length + 1))
        (at' p (⟨sv, .value⟩ :: (v.toks ++ (r.flowToks false ++ ⟨e, .flowMappingEnd⟩ :: rest))) .flowMappingValue (k :: ks)) =
        .ok (v.events ++ (r.events ++ [(.mappingEnd, e)]), at' p rest k ks) := by
      have h0 : parseStep (at' p (⟨sv, .value⟩ :: (v.toks ++ (r.flowToks false ++ ⟨e, .flowMappingEnd⟩ :: rest))) .flowMappingValue (k :: ks)) =
          parseNode (at' p (v.toks ++ (r.flowToks false ++ ⟨e, .flowMappingEnd⟩ :: rest)) .flowMappingValue (.flowMappingKey :: k :: ks)) false false := by
        rw [htv]; exact fmap_value p sv tokv _ (k :: ks) hnv
      exact steps_append (run_node hv p false _ _ .flowMappingKey (k :: ks) h0) hr
    have hrun : ∀ p0, parseStep p0 = parseNode (at' p (kk.toks ++ (⟨sv, .value⟩ :: (v.toks ++ (r.flowToks false ++ ⟨e, .flowMappingEnd⟩ :: rest))))
          (if first then .flowMappingFirstKey else .flowMappingKey) (.flowMappingValue :: k :: ks)) false false →
        steps ((Pairs.cons se sk kk sv v r).events.length + 1) p0 =
          .ok ((Pairs.cons se sk kk sv v r).events ++ [(.mappingEnd, e)], at' p rest k ks) := by
      intro p0 h0
      have h1 := run_node hk p false _ _ .flowMappingValue (k :: ks) h0
      have := steps_append h1 hval
      simp only [Pairs.events, List.length_append, List.append_assoc] at this ⊢
      rw [show kk.events.length + (v.events.length + r.events.length) + 1 =
        kk.events.length + (v.events.length + (r.events.length + 1)) by omega]
      exact this
    apply hrun
    cases first
    · simp only [Bool.false_eq_true, ↓reduceIte, List.nil_append, Pairs.flowToks, List.singleton_append,
        List.cons_append, List.append_assoc, htk]
      exact fmap_key p se sk tokk _ (k :: ks) hnk
    · simp only [↓reduceIte, Pairs.flowToks, List.nil_append, List.singleton_append, List.cons_append,
        List.append_assoc, htk]
      exact fmap_first_key p s sk tokk _ (k :: ks) hnk

theorem Pairs.blockParses (ps : Pairs) (hw : ps.wf = true) (p : PState) (first : Bool)
    (s e : Span) (rest : List Token) (k : State) (ks : List State) :
    steps (ps.events.length + 1)
      (at' p ((if first then [⟨s, .blockMappingStart⟩] else []) ++ (ps.blockToks ++ ⟨e, .blockEnd⟩ :: rest))
        (if first then .blockMappingFirstKey else .blockMappingKey) (k :: ks)) =
      .ok (ps.events ++ [(.mappingEnd, e)], at' p rest k ks) := by
  cases ps with
  | nil =>
    cases first
    · exact steps_one (bmap_end p e rest k ks)
    · exact steps_one (bmap_first_end p s e rest k ks)
  | cons se sk kk sv v r =>
    simp only [Pairs.wf, Bool.and_eq_true] at hw
    obtain ⟨tokk, tlk, htk, hnk⟩ := TT.toks_head kk
    obtain ⟨tokv, tlv, htv, hnv⟩ := TT.toks_head v
    have hk := TT.parses kk hw.1.1 true (Or.inl rfl)
    have hv := TT.parses v hw.1.2 true (Or.inl rfl)
    have hr := Pairs.blockParses r hw.2 p false s e rest k ks
    simp only [Bool.false_eq_true, ↓reduceIte, List.nil_append] at hr
    have hval : steps (v.events.length + (r.events.length + 1))
        (at' p (⟨sv, .value⟩ :: (v.toks ++ (r.blockToks ++ ⟨e, .blockEnd⟩ :: rest))) .blockMappingValue (k :: ks)) =
        .ok (v.events ++ (r.events ++ [(.mappingEnd, e)]), at' p rest k ks) := by
      have h0 : parseStep (at' p (⟨sv, .value⟩ :: (v.toks ++ (r.blockToks ++ ⟨e, .blockEnd⟩ :: rest))) .blockMappingValue (k :: ks)) =
          parseNode (at' p (v.toks ++ (r.blockToks ++ ⟨e, .blockEnd⟩ :: rest)) .blockMappingValue (.blockMappingKey :: k :: ks)) true true := by
        rw [htv]; exact bmap_value p sv tokv _ (k :: ks) hnv
      exact steps_append (run_node hv p true _ _ .blockMappingKey (k :: ks) h0) hr
    have hrun : ∀ p0, parseStep p0 = parseNode (at' p (kk.toks ++ (⟨sv, .value⟩ :: (v.toks ++ (r.blockToks ++ ⟨e, .blockEnd⟩ :: rest))))
          (if first then .blockMappingFirstKey else .blockMappingKey) (.blockMappingValue :: k :: ks)) true true →
        steps ((Pairs.cons se sk kk sv v r).events.length + 1) p0 =
          .ok ((Pairs.cons se sk kk sv v r).events ++ [(.mappingEnd, e)], at' p rest k ks) := by
      intro p0 h0
      have h1 := run_node hk p true _ _ .blockMappingValue (k :: ks) h0
      have := steps_append h1 hval
      simp only [Pairs.events, List.length_append, List.append_assoc] at this ⊢
      rw [show kk.events.length + (v.events.length + r.events.length) + 1 =
        kk.events.length + (v.events.length + (r.events.length + 1)) by omega]
      exact this
    apply hrun
    cases first
    · simp only [Bool.false_eq_true, ↓reduceIte, List.nil_append, Pairs.blockToks, List.cons_append,
        List.append_assoc, htk]
      exact bmap_key p sk tokk _ (k :: ks) hnk
    · simp only [↓reduceIte, Pairs.blockToks, List.singleton_append, List.cons_append, List.append_assoc, htk]
      exact bmap_first_key p s sk tokk _ (k :: ks) hnk
end

end SaphyrModel.TokTree

namespace SaphyrModel.TokTree
open SaphyrModel

/-- a whole stream with one bare document presenting `t` -/
def streamToks (ss se : Span) (t : TT) : List Token := ⟨ss, .streamStart⟩ :: (t.toks ++ [⟨se, .streamEnd⟩])

theorem stream_start_step (p : PState) (ss rest sts) :
    parseStep (at' p (⟨ss, .streamStart⟩ :: rest) .streamStart sts) =
      .ok (.streamStart, ss, at' p rest .implicitDocumentStart sts) := by
  simp [parseStep, streamStart, peekTok, skipTok, Bind.bind, at']

theorem implicit_doc_step (p : PState) (tok tl) (h : nodeStart tok.ty = true) :
    parseStep (at' p (tok :: tl) .implicitDocumentStart []) =
      .ok (.documentStart false, tok.span, at' p (tok :: tl) .blockNode [.documentEnd]) := by
  obtain ⟨sp0, ty0⟩ := tok
  cases ty0 <;> simp [nodeStart] at h <;>
    simp [parseStep, documentStart, skipDocEnds, peekTok, processDirectives, directivesLoop, tagsExtend, pushState,
      Bind.bind, Pure.pure, at']

theorem doc_end_step (p : PState) (se : Span) :
    parseStep (at' p [⟨se, .streamEnd⟩] .documentEnd []) =
      .ok (.documentEnd, se, at' (clearAnchors (clearTags p)) [⟨se, .streamEnd⟩] .documentStart []) := by
  cases hk : p.keepTags <;>
    simp [parseStep, at', documentEnd, peekTok, Bind.bind, Pure.pure, clearTags, clearAnchors, hk]

theorem stream_end_step (p : PState) (se : Span) :
    parseStep (at' p [⟨se, .streamEnd⟩] .documentStart []) = .ok (.streamEnd, se, at' p [] .end []) := by
  simp [parseStep, documentStart, skipDocEnds, peekTok, skipTok, Bind.bind, Pure.pure, at']

/-- **The parser reads every tree.** For every well-formed token tree `t` (any nesting depth, block and
    flow collections, any spans), a fresh parser over the tokens of the one-document stream presenting
    `t` emits StreamStart, DocumentStart, exactly the events `t` denotes, DocumentEnd, StreamEnd — no
    error, no panic — and stops in the end state. -/
theorem stream_parses (t : TT) (hw : t.wf = true) (ss se : Span) (eof : Marker) (keep : Bool) :
    ∃ sp pf, steps (t.events.length + 4) (PState.init (streamToks ss se t) none eof keep) =
        .ok ((.streamStart, ss) :: (.documentStart false, sp) :: (t.events ++ [(.documentEnd, se), (.streamEnd, se)]), pf) ∧
      pf.state = .end ∧ pf.toks = [] := by
  obtain ⟨tok, tl, htk, hn⟩ := TT.toks_head t
  let p0 := PState.init (streamToks ss se t) none eof keep
  have hp0 : p0 = at' p0 (⟨ss, .streamStart⟩ :: (t.toks ++ [⟨se, .streamEnd⟩])) .streamStart [] := rfl
  have h1 := stream_start_step p0 ss (t.toks ++ [⟨se, .streamEnd⟩]) []
  have h2 : parseStep (at' p0 (t.toks ++ [⟨se, .streamEnd⟩]) .implicitDocumentStart []) =
      .ok (.documentStart false, tok.span, at' p0 (t.toks ++ [⟨se, .streamEnd⟩]) .blockNode [.documentEnd]) := by
    rw [htk]; exact implicit_doc_step p0 tok _ hn
  have h3 : steps t.events.length (at' p0 (t.toks ++ [⟨se, .streamEnd⟩]) .blockNode [.documentEnd]) =
      .ok (t.events, at' p0 [⟨se, .streamEnd⟩] .documentEnd []) :=
    run_node (TT.parses t hw true (Or.inl rfl)) p0 false _ .blockNode .documentEnd [] (by simp [parseStep])
  have h4 := doc_end_step p0 se
  have h5 := stream_end_step (clearAnchors (clearTags p0)) se
  have h45 : steps 2 (at' p0 [⟨se, .streamEnd⟩] .documentEnd []) =
      .ok ([(.documentEnd, se), (.streamEnd, se)], at' (clearAnchors (clearTags p0)) [] .end []) :=
    steps_cons h4 (steps_one h5)
  have h345 := steps_append h3 h45
  have h2345 := steps_cons h2 h345
  have hall := steps_cons (p := p0) (by rw [hp0]; exact h1) h2345
  refine ⟨tok.span, at' (clearAnchors (clearTags p0)) [] .end [], ?_, rfl, rfl⟩
  have : t.events.length + 4 = t.events.length + 2 + 1 + 1 := by omega
  rw [this]; exact hall

end SaphyrModel.TokTree
