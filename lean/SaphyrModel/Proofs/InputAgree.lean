import SaphyrModel.Sc.Basic
/-! Back-end agreement at the `Input` interface (C10): every operation of the interface returns the
same value on a string input and on a buffered input (any capacity) that see the same characters,
and leaves them seeing the same characters. A panic of the buffered side (a look-ahead request the
ring cannot hold, a `peek` beyond what was requested, exhausted fuel) claims nothing: the look-ahead
discipline is C01's subject. -/
set_option linter.unusedSimpArgs false
namespace SaphyrModel.C10
open SaphyrModel SaphyrModel.Sc

/-- the characters an input will deliver, in order -/
def text (i : In) : Str := match i.kind with | .str => i.iter | .buf => i.buf ++ i.iter

/-- both inputs deliver the same characters, with NUL standing for "past the end" -/
def Same (i j : In) : Prop := ∀ n, (text i).getD n '\x00' = (text j).getD n '\x00'

/-- `i` is a string input, `j` a buffered one, and they see the same characters -/
structure SimIn (i j : In) : Prop where
  ki : i.kind = .str
  kj : j.kind = .buf
  same : ∀ n, i.iter.getD n '\x00' = (j.buf ++ j.iter).getD n '\x00'

theorem SimIn.toSame {i j : In} (h : SimIn i j) : Same i j := by
  intro n; simpa [text, h.ki, h.kj] using h.same n

/-- agreement of two outcomes: equal values, inputs still seeing the same text, capacity kept -/
def AgreeR {α : Type} (j0 : In) : Sc.Res (α × In) → Sc.Res (α × In) → Prop
  | .ok (a, i'), .ok (b, j') => a = b ∧ SimIn i' j' ∧ j'.cap = j0.cap
  | .err e1, .err e2 => e1 = e2
  | .panic _, _ => True
  | _, .panic _ => True
  | _, _ => False

/-- the operation agrees on every pair of inputs that see the same text -/
def Agrees {α : Type} (m : M In α) : Prop := ∀ i j, SimIn i j → AgreeR j (m i) (m j)

theorem Agrees.pure {α : Type} (a : α) : Agrees (Pure.pure a : M In α) := fun _ _ h => ⟨rfl, h, rfl⟩

theorem AgreeR.panicR {α : Type} (j0 : In) (r : Sc.Res (α × In)) (p : Site) : AgreeR j0 r (.panic p) := by
  cases r with
  | ok q => obtain ⟨a, i⟩ := q; simp [AgreeR]
  | err e => simp [AgreeR]
  | panic q => simp [AgreeR]

theorem AgreeR.cap {α : Type} {j0 j1 : In} (hc : j1.cap = j0.cap) {r1 r2 : Sc.Res (α × In)}
    (h : AgreeR j1 r1 r2) : AgreeR j0 r1 r2 := by
  cases r1 with
  | ok q =>
    obtain ⟨a, i⟩ := q
    cases r2 with
    | ok q2 => obtain ⟨b, j⟩ := q2; simp only [AgreeR] at h ⊢; exact ⟨h.1, h.2.1, by rw [h.2.2, hc]⟩
    | err e => simp [AgreeR] at h
    | panic p => simp [AgreeR]
  | err e =>
    cases r2 with
    | ok q2 => obtain ⟨b, j⟩ := q2; simp [AgreeR] at h
    | err e2 => simpa [AgreeR] using h
    | panic p => simp [AgreeR]
  | panic p => simp [AgreeR]

theorem Agrees.bind {α β : Type} {m : M In α} {f : α → M In β} (h1 : Agrees m) (h2 : ∀ a, Agrees (f a)) :
    Agrees (m >>= f) := by
  intro i j h
  have := h1 i j h
  simp only [Bind.bind]
  cases hi : m i with
  | ok r =>
    obtain ⟨a, i'⟩ := r
    cases hj : m j with
    | ok q =>
      obtain ⟨b, j'⟩ := q
      simp only [hi, hj, AgreeR] at this
      obtain ⟨rfl, hs, hc⟩ := this
      exact AgreeR.cap hc (h2 a i' j' hs)
    | err e => simp only [hi, hj, AgreeR] at this
    | panic p => exact AgreeR.panicR _ _ _
  | err e =>
    cases hj : m j with
    | ok q => obtain ⟨b, j'⟩ := q; simp only [hi, hj, AgreeR] at this
    | err e2 => simp only [hi, hj, AgreeR] at this ⊢; exact this
    | panic p => simp [AgreeR]
  | panic p => simp [AgreeR]

-- lists -----------------------------------------------------------------------------------------

theorem getD_append_pad (l : Str) (k m : Nat) :
    (l ++ List.replicate k '\x00').getD m '\x00' = l.getD m '\x00' := by
  simp only [List.getD_eq_getElem?_getD, List.getElem?_append]
  split
  · rfl
  · rename_i h
    have : l[m]? = none := by simp; omega
    simp [this, List.getElem?_replicate]
    split <;> rfl

theorem getD_append_left (l r : Str) (m : Nat) (h : m < l.length) :
    (l ++ r).getD m '\x00' = l[m] := by
  simp [List.getD_eq_getElem?_getD, List.getElem?_append_left h, List.getElem?_eq_getElem h]

theorem getD_cons_succ (a : Char) (l : Str) (n : Nat) : (a :: l).getD (n + 1) '\x00' = l.getD n '\x00' := by
  simp [List.getD_eq_getElem?_getD]

theorem getD_tail (l : Str) (n : Nat) : l.tail.getD n '\x00' = l.getD (n + 1) '\x00' := by
  cases l <;> simp [List.getD_eq_getElem?_getD]

theorem getD_drop (l : Str) (k n : Nat) : (l.drop k).getD n '\x00' = l.getD (k + n) '\x00' := by
  simp [List.getD_eq_getElem?_getD]

theorem headD_eq_getD (l : Str) : l.headD '\x00' = l.getD 0 '\x00' := by
  cases l <;> rfl

-- primitives ------------------------------------------------------------------------------------

theorem lookahead_agree (n : Nat) : Agrees (In.lookahead n) := by
  intro i j h
  unfold In.lookahead
  simp only [h.ki, h.kj]
  split
  · exact ⟨rfl, ⟨rfl, h.kj, h.same⟩, rfl⟩
  · split
    · trivial
    · refine ⟨rfl, ⟨rfl, rfl, ?_⟩, rfl⟩
      intro m
      show i.iter.getD m '\x00' = _
      rw [h.same m]
      by_cases hk : n - j.buf.length ≤ j.iter.length
      · have : (List.take (n - j.buf.length) j.iter).length = n - j.buf.length := by simp; omega
        simp [this, List.append_assoc]
      · have h1 : List.take (n - j.buf.length) j.iter = j.iter := List.take_of_length_le (by omega)
        have h2 : List.drop (n - j.buf.length) j.iter = [] := List.drop_of_length_le (by omega)
        simp only [h1, h2, List.append_nil]
        rw [getD_append_pad]

theorem peek_agree : Agrees In.peek := by
  intro i j h
  unfold In.peek
  simp only [h.ki, h.kj]
  cases hb : j.buf with
  | nil => trivial
  | cons c r =>
    refine ⟨?_, h, rfl⟩
    have := h.same 0
    rw [hb] at this
    rw [headD_eq_getD, this]; rfl

theorem peekNth_agree (n : Nat) : Agrees (In.peekNth n) := by
  intro i j h
  unfold In.peekNth
  simp only [h.ki, h.kj]
  split
  · rename_i hn
    exact ⟨by rw [h.same n, getD_append_left _ _ _ hn], h, rfl⟩
  · trivial

/-- `skip` drops the same character on both sides (on an empty ring the model of the buffered input
stops: the `Input` contract demands a look-ahead request before every consumption) -/
theorem skip_agree : Agrees In.skip := by
  intro i j h
  unfold In.skip
  simp only [h.ki, h.kj]
  cases hb : j.buf with
  | nil => trivial
  | cons b r =>
    refine ⟨rfl, ⟨rfl, rfl, ?_⟩, rfl⟩
    intro n
    show i.iter.tail.getD n '\x00' = (r ++ j.iter).getD n '\x00'
    rw [getD_tail, h.same (n + 1), hb]
    simp [List.getD_eq_getElem?_getD]

theorem skip_agree' (i j : In) (h : SimIn i j) (_hne : j.buf ≠ []) : AgreeR j (In.skip i) (In.skip j) :=
  skip_agree i j h

theorem skipN_agree (n : Nat) : Agrees (In.skipN n) := by
  intro i j h
  unfold In.skipN
  simp only [h.ki, h.kj]
  split
  · trivial
  · rename_i hn
    refine ⟨rfl, ⟨rfl, rfl, ?_⟩, rfl⟩
    intro m
    show (i.iter.drop n).getD m '\x00' = (j.buf.drop n ++ j.iter).getD m '\x00'
    rw [getD_drop, h.same (n + m)]
    have : j.buf.drop n ++ j.iter = (j.buf ++ j.iter).drop n := by
      rw [List.drop_append_of_le_length (by omega)]
    rw [this, getD_drop]

theorem assertBuflen_agree (n : Nat) (s : Site) : Agrees (In.assertBuflen n s) := by
  intro i j h
  unfold In.assertBuflen
  simp only [h.ki, h.kj]
  split
  · exact ⟨rfl, h, rfl⟩
  · trivial

theorem lookCh_agree' : Agrees In.lookCh := Agrees.bind (lookahead_agree 1) (fun _ => peek_agree)
theorem nextCharIs_agree (c : Char) : Agrees (In.nextCharIs c) := Agrees.bind peek_agree (fun _ => Agrees.pure _)
theorem nthCharIs_agree (n : Nat) (c : Char) : Agrees (In.nthCharIs n c) :=
  Agrees.bind (peekNth_agree n) (fun _ => Agrees.pure _)

/-- an operation whose two branches (the `StrInput` override, the trait default) both equal one
generic program that agrees -/
theorem Agrees.congr {α : Type} {m g : M In α} (h : Agrees g)
    (hs : ∀ i : In, i.kind = .str → m i = g i) (hb : ∀ j : In, j.kind = .buf → m j = g j) : Agrees m := by
  intro i j hij
  rw [hs i hij.ki, hb j hij.kj]
  exact h i j hij

-- the trait's default implementations, as programs over the primitives ---------------------------

def dfltNext2Are (c1 c2 : Char) : M In Bool := do
  In.assertBuflen 2 .assertBuflen2; return (← In.peek) == c1 && (← In.peekNth 1) == c2
def dfltNext3Are (c1 c2 c3 : Char) : M In Bool := do
  In.assertBuflen 3 .assertBuflen3
  return (← In.peek) == c1 && (← In.peekNth 1) == c2 && (← In.peekNth 2) == c3
def dfltNextIs (p : Char → Bool) : M In Bool := do return p (← In.peek)

theorem dfltNext2Are_agree (c1 c2 : Char) : Agrees (dfltNext2Are c1 c2) :=
  Agrees.bind (assertBuflen_agree _ _) fun _ => Agrees.bind peek_agree fun _ =>
    Agrees.bind (peekNth_agree 1) fun _ => Agrees.pure _
theorem dfltNext3Are_agree (c1 c2 c3 : Char) : Agrees (dfltNext3Are c1 c2 c3) :=
  Agrees.bind (assertBuflen_agree _ _) fun _ => Agrees.bind peek_agree fun _ =>
    Agrees.bind (peekNth_agree 1) fun _ => Agrees.bind (peekNth_agree 2) fun _ => Agrees.pure _
theorem dfltNextIs_agree (p : Char → Bool) : Agrees (dfltNextIs p) :=
  Agrees.bind peek_agree fun _ => Agrees.pure _

theorem head?_beq (l : Str) (c : Char) (hc : c ≠ '\x00') : (l.head? == some c) = (l.getD 0 '\x00' == c) := by
  cases l with
  | nil =>
    have : ('\x00' == c) = false := by simp; exact fun h => hc h.symm
    simp [List.getD_eq_getElem?_getD, this]
  | cons a r => simp [List.getD_eq_getElem?_getD]

theorem next2Are_agree (c1 c2 : Char) (h1 : c1 ≠ '\x00') (h2 : c2 ≠ '\x00') : Agrees (In.next2Are c1 c2) := by
  apply Agrees.congr (dfltNext2Are_agree c1 c2)
  · intro i hk
    simp only [In.next2Are, dfltNext2Are, hk, Bind.bind, In.assertBuflen, In.peek, In.peekNth, Pure.pure]
    rw [head?_beq _ _ h1, head?_beq _ _ h2, getD_tail, headD_eq_getD]
  · intro j hk
    simp only [In.next2Are, dfltNext2Are, hk]

theorem next3Are_agree (c1 c2 c3 : Char) (h1 : c1 ≠ '\x00') (h2 : c2 ≠ '\x00') (h3 : c3 ≠ '\x00') :
    Agrees (In.next3Are c1 c2 c3) := by
  apply Agrees.congr (dfltNext3Are_agree c1 c2 c3)
  · intro i hk
    simp only [In.next3Are, dfltNext3Are, hk, Bind.bind, In.assertBuflen, In.peek, In.peekNth, Pure.pure]
    rw [head?_beq _ _ h1, head?_beq _ _ h2, head?_beq _ _ h3, getD_tail, getD_tail, getD_tail, headD_eq_getD]
  · intro j hk
    simp only [In.next3Are, dfltNext3Are, hk]

/-- `next_is_*`: `StrInput` tests the first byte and answers `e` on an empty string; the default
peeks (NUL at the end). They agree because every predicate used gives NUL the answer `e`. -/
theorem nextIs_agree (p : Char → Bool) (e : Bool) (hp : p '\x00' = e) : Agrees (In.nextIs p e) := by
  apply Agrees.congr (dfltNextIs_agree p)
  · intro i hk
    simp only [In.nextIs, dfltNextIs, hk, Bind.bind, In.peek, Pure.pure]
    cases i.iter with
    | nil => simp [hp]
    | cons c r => simp
  · intro j hk
    simp only [In.nextIs, dfltNextIs, hk]

theorem nextIsBlankOrBreak_agree : Agrees In.nextIsBlankOrBreak := nextIs_agree _ _ (by decide)
theorem nextIsBlankOrBreakz_agree : Agrees In.nextIsBlankOrBreakz := nextIs_agree _ _ (by decide)
theorem nextIsBlank_agree : Agrees In.nextIsBlank := nextIs_agree _ _ (by decide)
theorem nextIsBreak_agree : Agrees In.nextIsBreak := nextIs_agree _ _ (by decide)
theorem nextIsBreakz_agree : Agrees In.nextIsBreakz := nextIs_agree _ _ (by decide)
theorem nextIsZ_agree : Agrees In.nextIsZ := nextIs_agree _ _ (by decide)
theorem nextIsFlow_agree : Agrees In.nextIsFlow := nextIs_agree _ _ (by decide)
theorem nextIsDigit_agree : Agrees In.nextIsDigit := nextIs_agree _ _ (by decide)
theorem nextIsAlpha_agree : Agrees In.nextIsAlpha := nextIs_agree _ _ (by decide)

-- document indicators ---------------------------------------------------------------------------

def dfltDocIndicator : M In Bool := do
  In.assertBuflen 4 .assertBuflen4
  let c3 ← In.peekNth 3
  let a ← In.next3Are '.' '.' '.'
  let b ← In.next3Are '-' '-' '-'
  return isBlankOrBreakz c3 && (a || b)
def dfltDocStart : M In Bool := do
  In.assertBuflen 4 .assertBuflen4
  let a ← In.next3Are '-' '-' '-'
  let c3 ← In.peekNth 3
  return a && isBlankOrBreakz c3
def dfltDocEnd : M In Bool := do
  In.assertBuflen 4 .assertBuflen4
  let a ← In.next3Are '.' '.' '.'
  let c3 ← In.peekNth 3
  return a && isBlankOrBreakz c3

theorem dfltDocIndicator_agree : Agrees dfltDocIndicator :=
  Agrees.bind (assertBuflen_agree _ _) fun _ => Agrees.bind (peekNth_agree 3) fun _ =>
    Agrees.bind (next3Are_agree _ _ _ (by decide) (by decide) (by decide)) fun _ =>
      Agrees.bind (next3Are_agree _ _ _ (by decide) (by decide) (by decide)) fun _ => Agrees.pure _
theorem dfltDocStart_agree : Agrees dfltDocStart :=
  Agrees.bind (assertBuflen_agree _ _) fun _ =>
    Agrees.bind (next3Are_agree _ _ _ (by decide) (by decide) (by decide)) fun _ =>
      Agrees.bind (peekNth_agree 3) fun _ => Agrees.pure _
theorem dfltDocEnd_agree : Agrees dfltDocEnd :=
  Agrees.bind (assertBuflen_agree _ _) fun _ =>
    Agrees.bind (next3Are_agree _ _ _ (by decide) (by decide) (by decide)) fun _ =>
      Agrees.bind (peekNth_agree 3) fun _ => Agrees.pure _

theorem isBBz_ascii (d : Char) (h : isBlankOrBreakz d = true) : d.toNat < 0x80 := by
  simp [isBlankOrBreakz, isBlank, isBreakz, isBreak, isZ] at h
  rcases h with (h | h) | (h | h) | h <;> subst h <;> decide

/-- `StrInput` looks at the fourth *byte*; it is a blank/break/NUL exactly when the fourth character is -/
theorem fourth_byte (d : Char) : (if d.toNat < 0x80 then isBlankOrBreakz d else false) = isBlankOrBreakz d := by
  split
  · rfl
  · rename_i h
    cases hb : isBlankOrBreakz d with
    | false => rfl
    | true => exact absurd (isBBz_ascii d hb) h

theorem strDoc_eval (s : Str) (q : Char → Bool) :
    In.strDocIndicator s q =
      (isBlankOrBreakz (s.getD 3 '\x00') && (3 ≤ s.length : Bool) && q (s.getD 0 '\x00') &&
        (s.getD 0 '\x00' == s.getD 1 '\x00') && (s.getD 1 '\x00' == s.getD 2 '\x00')) := by
  have hz : isBlankOrBreakz '\x00' = true := by decide
  rcases s with _ | ⟨a, _ | ⟨b, _ | ⟨c, _ | ⟨d, r⟩⟩⟩⟩ <;> simp only [In.strDocIndicator, fourth_byte] <;>
    simp [List.getD_eq_getElem?_getD, hz, Bool.and_assoc]

theorem str_next3 (i : In) (hk : i.kind = .str) (c1 c2 c3 : Char) (h1 : c1 ≠ '\x00') (h2 : c2 ≠ '\x00') (h3 : c3 ≠ '\x00') :
    In.next3Are c1 c2 c3 i =
      .ok ((i.iter.getD 0 '\x00' == c1 && i.iter.getD 1 '\x00' == c2 && i.iter.getD 2 '\x00' == c3), i) := by
  simp only [In.next3Are, hk]
  rw [head?_beq _ _ h1, head?_beq _ _ h2, head?_beq _ _ h3, getD_tail, getD_tail, getD_tail]

theorem nextIsDocumentIndicator_agree : Agrees In.nextIsDocumentIndicator := by
  apply Agrees.congr dfltDocIndicator_agree
  · intro i hk
    simp only [In.nextIsDocumentIndicator, dfltDocIndicator, hk, Bind.bind, In.assertBuflen, In.peekNth, Pure.pure,
      str_next3 i hk _ _ _ (by decide : '.' ≠ '\x00') (by decide : '.' ≠ '\x00') (by decide : '.' ≠ '\x00'),
      str_next3 i hk _ _ _ (by decide : '-' ≠ '\x00') (by decide : '-' ≠ '\x00') (by decide : '-' ≠ '\x00'), strDoc_eval]
    congr 2
    rcases hs : i.iter with _ | ⟨a, _ | ⟨b, _ | ⟨c, r⟩⟩⟩ <;> simp [List.getD_eq_getElem?_getD] <;> grind
  · intro j hk
    simp only [In.nextIsDocumentIndicator, dfltDocIndicator, hk]

theorem nextIsDocumentStart_agree : Agrees In.nextIsDocumentStart := by
  apply Agrees.congr dfltDocStart_agree
  · intro i hk
    simp only [In.nextIsDocumentStart, dfltDocStart, hk, Bind.bind, In.assertBuflen, In.peekNth, Pure.pure,
      str_next3 i hk _ _ _ (by decide : '-' ≠ '\x00') (by decide : '-' ≠ '\x00') (by decide : '-' ≠ '\x00'), strDoc_eval]
    congr 2
    rcases hs : i.iter with _ | ⟨a, _ | ⟨b, _ | ⟨c, r⟩⟩⟩ <;> simp [List.getD_eq_getElem?_getD] <;> grind
  · intro j hk
    simp only [In.nextIsDocumentStart, dfltDocStart, hk]

theorem nextIsDocumentEnd_agree : Agrees In.nextIsDocumentEnd := by
  apply Agrees.congr dfltDocEnd_agree
  · intro i hk
    simp only [In.nextIsDocumentEnd, dfltDocEnd, hk, Bind.bind, In.assertBuflen, In.peekNth, Pure.pure,
      str_next3 i hk _ _ _ (by decide : '.' ≠ '\x00') (by decide : '.' ≠ '\x00') (by decide : '.' ≠ '\x00'), strDoc_eval]
    congr 2
    rcases hs : i.iter with _ | ⟨a, _ | ⟨b, _ | ⟨c, r⟩⟩⟩ <;> simp [List.getD_eq_getElem?_getD] <;> grind
  · intro j hk
    simp only [In.nextIsDocumentEnd, dfltDocEnd, hk]

-- next_can_be_plain_scalar ----------------------------------------------------------------------

def dfltCanBePlain (inFlow : Bool) : M In Bool := do
  let nc ← In.peekNth 1
  let c ← In.peek
  if c == ':' && (isBlankOrBreakz nc || (inFlow && isFlow nc)) then return false
  else if inFlow && isFlow c then return false else return true

theorem dfltCanBePlain_agree (fl : Bool) : Agrees (dfltCanBePlain fl) :=
  Agrees.bind (peekNth_agree 1) fun _ => Agrees.bind peek_agree fun _ => by
    split
    · exact Agrees.pure _
    · split <;> exact Agrees.pure _

theorem Agrees.congr' {α : Type} {m g : M In α} (h : Agrees g)
    (hs : ∀ i : In, i.kind = .str → (∃ p, m i = .panic p) ∨ m i = g i)
    (hb : ∀ j : In, j.kind = .buf → m j = g j) : Agrees m := by
  intro i j hij
  rcases hs i hij.ki with ⟨p, hp⟩ | he
  · rw [hp]; simp [AgreeR]
  · rw [he, hb j hij.kj]; exact h i j hij

theorem second_byte (d : Char) : (decide (d.toNat < 0x80) && isBlankOrBreakz d) = isBlankOrBreakz d := by
  cases hb : isBlankOrBreakz d with
  | false => simp
  | true => simp [isBBz_ascii d hb]

theorem isFlow_ascii (c : Char) (h : isFlow c = true) : c.toNat < 0x80 := by
  simp [isFlow] at h
  rcases h with (((h | h) | h) | h) | h <;> subst h <;> decide

/-- `StrInput::next_can_be_plain_scalar` inspects the first two *bytes*; on a non-empty string it
answers what the default (two `peek`s) answers. On an empty string it panics — the scanner only
asks after `next_is_blank_or_breakz` said no (C01, `KS.plainGuard`). -/
theorem nextCanBePlainScalar_agree (fl : Bool) : Agrees (In.nextCanBePlainScalar fl) := by
  apply Agrees.congr' (dfltCanBePlain_agree fl)
  · intro i hk
    cases hi : i.iter with
    | nil => left; exact ⟨.strPlainEmpty, by simp [In.nextCanBePlainScalar, hk, hi]⟩
    | cons c r =>
      right
      cases r with
      | cons nc t =>
        simp only [In.nextCanBePlainScalar, dfltCanBePlain, hk, hi, Bind.bind, In.peekNth, In.peek, Pure.pure,
          List.getD_cons_succ, List.getD_cons_zero, List.headD_cons, second_byte]
        by_cases h1 : (c == ':' && (isBlankOrBreakz nc || fl && isFlow nc)) = true
        · simp [h1]
        · by_cases h2 : (fl && isFlow c) = true <;> simp [h1, h2]
      | nil =>
        have hz : isBlankOrBreakz '\x00' = true := by decide
        simp only [In.nextCanBePlainScalar, dfltCanBePlain, hk, hi, Bind.bind, In.peekNth, In.peek, Pure.pure,
          List.headD_cons]
        have : [c].getD 1 '\x00' = '\x00' := rfl
        rw [this, hz]
        by_cases h80 : c.toNat ≥ 0x80
        · have h1 : (c == ':') = false := by
            cases hc : c == ':' with
            | false => rfl
            | true => simp at hc; subst hc; exact absurd h80 (by decide)
          have h2 : isFlow c = false := by
            cases hf : isFlow c with
            | false => rfl
            | true => exact absurd (isFlow_ascii c hf) (by omega)
          simp [h80, h1, h2]
        · simp only [h80, if_false]
          cases hcc : (c == ':') <;> cases fl <;> cases hf : isFlow c <;> simp [hcc, hf]
  · intro j hk
    simp only [In.nextCanBePlainScalar, dfltCanBePlain, hk]

-- raw_read_non_breakz_ch ------------------------------------------------------------------------

/-- reading behind the look-ahead buffer: agrees when the buffer is empty (the scanner's
`scan_block_scalar_content_line` checks `buf_is_empty` first) -/
theorem rawRead_agree (i j : In) (h : SimIn i j) (hb : j.buf = []) :
    AgreeR j (In.rawReadNonBreakzCh i) (In.rawReadNonBreakzCh j) := by
  have h0 := h.same 0
  have hs := h.same
  simp only [hb, List.nil_append] at h0 hs
  unfold In.rawReadNonBreakzCh
  cases hi : i.iter with
  | nil =>
    cases hj : j.iter with
    | nil => exact ⟨rfl, h, rfl⟩
    | cons d r' =>
      have hd : d = '\x00' := by simpa [hi, hj, List.getD_eq_getElem?_getD] using h0.symm
      subst hd
      simp only [show isBreakz '\x00' = true by decide, if_true, h.kj]
      split
      · trivial
      · refine ⟨rfl, ⟨h.ki, rfl, ?_⟩, rfl⟩
        intro n; simpa [hb, hj] using hs n
  | cons c r =>
    cases hj : j.iter with
    | nil =>
      have hc : c = '\x00' := by simpa [hi, hj, List.getD_eq_getElem?_getD] using h0
      subst hc
      simp only [show isBreakz '\x00' = true by decide, if_true, h.ki]
      exact ⟨rfl, h, rfl⟩
    | cons d r' =>
      have hd : c = d := by simpa [hi, hj, List.getD_eq_getElem?_getD] using h0
      subst hd
      by_cases hbz : isBreakz c
      · simp only [hbz, if_true, h.ki, h.kj]
        split
        · trivial
        · refine ⟨rfl, ⟨h.ki, rfl, ?_⟩, rfl⟩
          intro n; simpa [hb, hj] using hs n
      · simp only [hbz]
        refine ⟨rfl, ⟨h.ki, h.kj, ?_⟩, rfl⟩
        intro n
        have := hs (n + 1)
        simpa [hi, hj, hb, List.getD_eq_getElem?_getD] using this

-- the default loops against the `StrInput` overrides ---------------------------------------------

theorem SimIn.la {i j : In} (h : SimIn i j) (l : Nat) : SimIn { i with la := l } j := ⟨h.ki, h.kj, h.same⟩

theorem peek_buf_ok {j j1 : In} {c : Char} (hk : j.kind = .buf) (h : In.peek j = .ok (c, j1)) :
    j1 = j ∧ j.buf ≠ [] := by
  unfold In.peek at h
  simp only [hk] at h
  cases hb : j.buf with
  | nil => simp [hb] at h
  | cons b r => simp [hb] at h; exact ⟨h.2.symm, by simp⟩

theorem lookahead_kind {n : Nat} {j j1 : In} (h : In.lookahead n j = .ok ((), j1)) : j1.kind = j.kind := by
  unfold In.lookahead at h
  split at h
  · cases h; rfl
  · split at h
    · cases h; rfl
    · split at h
      · cases h
      · cases h; rfl

/-- after a successful `look_ch` the buffered side holds at least one character -/
theorem lookCh_buf_ne {j j1 : In} {c : Char} (hk : j.kind = .buf) (h : In.lookCh j = .ok (c, j1)) : j1.buf ≠ [] := by
  unfold In.lookCh at h
  simp only [Bind.bind] at h
  cases hl : In.lookahead 1 j with
  | ok q =>
    obtain ⟨u, j'⟩ := q
    simp only [hl] at h
    have hk' : j'.kind = .buf := by rw [lookahead_kind hl, hk]
    obtain ⟨rfl, hne⟩ := peek_buf_ok hk' h
    exact hne
  | err e => simp [hl] at h
  | panic p => simp [hl] at h

theorem lookCh_str (i : In) (hk : i.kind = .str) :
    In.lookCh i = .ok (i.iter.headD '\x00', { i with la := max i.la 1 }) := by
  simp [In.lookCh, In.lookahead, In.peek, hk, Bind.bind]

/-- one step of a default loop: what `look_ch` gives the buffered side -/
theorem lookCh_step (i j : In) (h : SimIn i j) :
    (∃ p, In.lookCh j = .panic p) ∨
    ∃ j1, In.lookCh j = .ok (i.iter.headD '\x00', j1) ∧ SimIn i j1 ∧ j1.cap = j.cap ∧ j1.buf ≠ [] := by
  have := lookCh_agree' i j h
  rw [lookCh_str i h.ki] at this
  cases hj : In.lookCh j with
  | ok q =>
    obtain ⟨b, j1⟩ := q
    simp only [hj, AgreeR] at this
    obtain ⟨rfl, hs, hc⟩ := this
    exact Or.inr ⟨j1, rfl, ⟨h.ki, hs.kj, hs.same⟩, hc, lookCh_buf_ne h.kj hj⟩
  | err e => simp [hj, AgreeR] at this
  | panic p => exact Or.inl ⟨p, rfl⟩

theorem skip_step (i j : In) (h : SimIn i j) (hne : j.buf ≠ []) :
    ∃ j2, In.skip j = .ok ((), j2) ∧ SimIn { i with iter := i.iter.tail } j2 ∧ j2.cap = j.cap := by
  have := skip_agree i j h
  unfold In.skip at this ⊢
  simp only [h.ki, h.kj] at this ⊢
  cases hb : j.buf with
  | nil => exact absurd hb hne
  | cons b r =>
    simp only [hb, AgreeR] at this
    exact ⟨_, rfl, this.2.1, rfl⟩

theorem headD_ne_nul {l : Str} {c : Char} (h : l.headD '\x00' = c) (hc : c ≠ '\x00') : ∃ r, l = c :: r := by
  cases l with
  | nil => exact absurd h.symm hc
  | cons a r => exact ⟨r, by simp at h; rw [h]⟩

theorem spanWhile_cons_true (p : Char → Bool) (c : Char) (r : Str) (h : p c = true) :
    In.spanWhile p (c :: r) = ((In.spanWhile p r).1 + 1, (In.spanWhile p r).2) := by
  simp [In.spanWhile, h]
theorem spanWhile_false (p : Char → Bool) (l : Str) (h : p (l.headD '\x00') = false) (_hp : p '\x00' = false) :
    In.spanWhile p l = (0, l) := by
  cases l with
  | nil => rfl
  | cons c r => simp at h; simp [In.spanWhile, h]

theorem dfltSkipWhile_step (p : Char → Bool) (f n : Nat) (j j1 : In) (c : Char) (hl : In.lookCh j = .ok (c, j1)) :
    In.dfltSkipWhile p (f + 1) n j =
      if p c = true then (match In.skip j1 with
        | .ok (_, j2) => In.dfltSkipWhile p f (n + 1) j2 | .err e => .err e | .panic q => .panic q)
      else .ok (n, j1) := by
  conv => lhs; unfold In.dfltSkipWhile
  simp only [Bind.bind, hl]
  cases hb : p c <;> simp only [hb, Bool.false_eq_true, ↓reduceIte]
  · rfl
  · rcases In.skip j1 with ⟨⟨_, _⟩⟩ | _ | _ <;> rfl

/-- the default `while p(look_ch()) { skip }` on the buffered side counts and consumes exactly the
longest prefix satisfying `p` (what `StrInput` computes directly on its slice) -/
theorem dfltSkipWhile_agree (p : Char → Bool) (hp : p '\x00' = false) :
    ∀ (fuel n : Nat) (i j : In) (l : Nat), SimIn i j →
      AgreeR j (.ok (n + (In.spanWhile p i.iter).1, { i with iter := (In.spanWhile p i.iter).2, la := l }))
        (In.dfltSkipWhile p fuel n j) := by
  intro fuel
  induction fuel with
  | zero => intro n i j l h; exact AgreeR.panicR _ _ _
  | succ f ih =>
    intro n i j l h
    rcases lookCh_step i j h with ⟨q, hq⟩ | ⟨j1, hj1, hs1, hc1, hne1⟩
    · unfold In.dfltSkipWhile
      simp only [Bind.bind, hq]
      exact AgreeR.panicR _ _ _
    · rw [dfltSkipWhile_step p f n j j1 _ hj1]
      by_cases hpc : p (i.iter.headD '\x00') = true
      · rw [if_pos hpc]
        have hnz : i.iter.headD '\x00' ≠ '\x00' := by intro hz; rw [hz, hp] at hpc; cases hpc
        obtain ⟨r, hr⟩ := headD_ne_nul rfl hnz
        obtain ⟨j2, hj2, hs2, hc2⟩ := skip_step i j1 hs1 hne1
        rw [hj2]
        have := ih (n + 1) { i with iter := i.iter.tail } j2 l hs2
        have hsp : In.spanWhile p i.iter = ((In.spanWhile p r).1 + 1, (In.spanWhile p r).2) := by
          rw [hr]; exact spanWhile_cons_true p _ r (by rw [hr] at hpc; simpa using hpc)
        have ht : i.iter.tail = r := by rw [hr]; rfl
        rw [hsp]
        simp only [ht] at this
        refine AgreeR.cap (by rw [hc2, hc1]) ?_
        have e : n + ((In.spanWhile p r).1 + 1) = n + 1 + (In.spanWhile p r).1 := by omega
        simp only [e]
        exact this
      · rw [if_neg hpc]
        have hpc' : p (i.iter.headD '\x00') = false := by simpa using hpc
        rw [spanWhile_false p _ hpc' hp]
        simp only [AgreeR]
        exact ⟨by simp, ⟨h.ki, hs1.kj, hs1.same⟩, hc1⟩

theorem skipWhileNonBreakz_agree : Agrees In.skipWhileNonBreakz := by
  intro i j h
  have := dfltSkipWhile_agree (fun c => !isBreakz c) (by decide) (j.remaining + 2) 0 i j i.la h
  unfold In.skipWhileNonBreakz
  simp only [h.ki, h.kj] at this ⊢
  simpa using this

theorem skipWhileBlank_agree : Agrees In.skipWhileBlank := by
  intro i j h
  have := dfltSkipWhile_agree isBlank (by decide) (j.remaining + 2) 0 i j i.la h
  unfold In.skipWhileBlank
  simp only [h.ki, h.kj] at this ⊢
  simpa using this

theorem dfltFetchAlpha_step (f n : Nat) (out : Str) (j j1 : In) (c : Char) (hl : In.lookCh j = .ok (c, j1)) :
    In.dfltFetchAlpha (f + 1) n out j =
      if isAlpha c = true then (match In.skip j1 with
        | .ok (_, j2) => In.dfltFetchAlpha f (n + 1) (out ++ [c]) j2 | .err e => .err e | .panic q => .panic q)
      else .ok ((n, out), j1) := by
  conv => lhs; unfold In.dfltFetchAlpha
  simp only [Bind.bind, hl]
  cases hb : isAlpha c <;> simp only [hb, Bool.false_eq_true, ↓reduceIte]
  · rfl
  · rcases In.skip j1 with ⟨⟨_, _⟩⟩ | _ | _ <;> rfl

theorem dfltFetchAlpha_agree :
    ∀ (fuel n : Nat) (out : Str) (i j : In) (l : Nat), SimIn i j →
      AgreeR j (.ok ((n + (In.spanWhile isAlpha i.iter).1, out ++ i.iter.take (In.spanWhile isAlpha i.iter).1),
                    { i with iter := (In.spanWhile isAlpha i.iter).2, la := l }))
        (In.dfltFetchAlpha fuel n out j) := by
  intro fuel
  induction fuel with
  | zero => intro n out i j l h; exact AgreeR.panicR _ _ _
  | succ f ih =>
    intro n out i j l h
    rcases lookCh_step i j h with ⟨q, hq⟩ | ⟨j1, hj1, hs1, hc1, hne1⟩
    · unfold In.dfltFetchAlpha
      simp only [Bind.bind, hq]
      exact AgreeR.panicR _ _ _
    · rw [dfltFetchAlpha_step f n out j j1 _ hj1]
      by_cases hpc : isAlpha (i.iter.headD '\x00') = true
      · rw [if_pos hpc]
        have hnz : i.iter.headD '\x00' ≠ '\x00' := by intro hz; rw [hz] at hpc; revert hpc; decide
        obtain ⟨r, hr⟩ := headD_ne_nul rfl hnz
        obtain ⟨j2, hj2, hs2, hc2⟩ := skip_step i j1 hs1 hne1
        rw [hj2]
        have := ih (n + 1) (out ++ [i.iter.headD '\x00']) { i with iter := i.iter.tail } j2 l hs2
        have hsp : In.spanWhile isAlpha i.iter = ((In.spanWhile isAlpha r).1 + 1, (In.spanWhile isAlpha r).2) := by
          rw [hr]; exact spanWhile_cons_true isAlpha _ r (by rw [hr] at hpc; simpa using hpc)
        have ht : i.iter.tail = r := by rw [hr]; rfl
        rw [hsp]
        simp only [ht] at this
        refine AgreeR.cap (by rw [hc2, hc1]) ?_
        have e : n + ((In.spanWhile isAlpha r).1 + 1) = n + 1 + (In.spanWhile isAlpha r).1 := by omega
        have e2 : out ++ List.take ((In.spanWhile isAlpha r).1 + 1) i.iter
            = out ++ [i.iter.headD '\x00'] ++ List.take (In.spanWhile isAlpha r).1 r := by
          conv => lhs; rw [hr]
          simp
        simp only [e, e2]
        exact this
      · rw [if_neg hpc]
        have hpc' : isAlpha (i.iter.headD '\x00') = false := by simpa using hpc
        rw [spanWhile_false isAlpha _ hpc' (by decide)]
        simp only [AgreeR]
        exact ⟨by simp, ⟨h.ki, hs1.kj, hs1.same⟩, hc1⟩

theorem fetchWhileIsAlpha_agree (out : Str) : Agrees (In.fetchWhileIsAlpha out) := by
  intro i j h
  have := dfltFetchAlpha_agree (j.remaining + 2) 0 out i j i.la h
  unfold In.fetchWhileIsAlpha
  simp only [h.ki, h.kj] at this ⊢
  simpa using this

-- skip_ws_to_eol --------------------------------------------------------------------------------

def wsMsg : String := "comments must be separated from other tokens by whitespace"

/-- what `StrInput::skip_ws_to_eol` computes, started in the middle (accumulators `n tab ws`) -/
def wsExpect (tabs : Bool) (i : In) (n : Nat) (tab ws : Bool) (l : Nat) :
    Sc.Res ((Nat × Except String SkipTabs) × In) :=
  let q := In.strSkipBlanks tabs i.iter n tab ws
  match q.2.2.2 with
  | '#' :: _ =>
    if !q.2.1 && !q.2.2.1 then .ok ((q.1, .error wsMsg), { i with iter := q.2.2.2, la := l })
    else .ok ((q.1 + (In.spanWhile (fun c => !isBreakz c) q.2.2.2).1, .ok (.result q.2.1 q.2.2.1)),
              { i with iter := (In.spanWhile (fun c => !isBreakz c) q.2.2.2).2, la := l })
  | _ => .ok ((q.1, .ok (.result q.2.1 q.2.2.1)), { i with iter := q.2.2.2, la := l })

theorem ssb_space (tabs : Bool) (r : Str) (n : Nat) (tab ws : Bool) :
    In.strSkipBlanks tabs (' ' :: r) n tab ws = In.strSkipBlanks tabs r (n + 1) tab true := by
  simp [In.strSkipBlanks]
theorem ssb_tab (tabs : Bool) (r : Str) (n : Nat) (tab ws : Bool) :
    In.strSkipBlanks tabs ('\t' :: r) n tab ws =
      if tabs then In.strSkipBlanks tabs r (n + 1) true ws else (n, tab, ws, '\t' :: r) := by
  simp [In.strSkipBlanks]
theorem ssb_other (tabs : Bool) (l : Str) (n : Nat) (tab ws : Bool)
    (h1 : l.headD '\x00' ≠ ' ') (h2 : l.headD '\x00' ≠ '\t') : In.strSkipBlanks tabs l n tab ws = (n, tab, ws, l) := by
  cases l with
  | nil => simp [In.strSkipBlanks]
  | cons c r =>
    simp at h1 h2
    unfold In.strSkipBlanks
    split
    · rename_i heq; cases heq; exact absurd rfl h1
    · rename_i heq; cases heq; exact absurd rfl h2
    · rfl

theorem dfltSkipWs_step (st : SkipTabs) (f n : Nat) (tab ws : Bool) (j j1 : In) (c : Char)
    (hl : In.lookCh j = .ok (c, j1)) :
    In.dfltSkipWs st (f + 1) n tab ws j =
      if c == ' ' then (match In.skip j1 with
        | .ok (_, j2) => In.dfltSkipWs st f (n + 1) tab true j2 | .err e => .err e | .panic q => .panic q)
      else if c == '\t' && st != .no then (match In.skip j1 with
        | .ok (_, j2) => In.dfltSkipWs st f (n + 1) true ws j2 | .err e => .err e | .panic q => .panic q)
      else if c == '#' && !tab && !ws then .ok ((n, .error wsMsg), j1)
      else if c == '#' then (match In.skip j1 with
        | .ok (_, j2) => (match In.dfltSkipWhile (fun c => !isBreakz c) (f + 1) 0 j2 with
          | .ok (k, j3) => In.dfltSkipWs st f (n + k + 1) tab ws j3 | .err e => .err e | .panic q => .panic q)
        | .err e => .err e | .panic q => .panic q)
      else .ok ((n, .ok (.result tab ws)), j1) := by
  conv => lhs; unfold In.dfltSkipWs
  simp only [Bind.bind, hl]
  by_cases h1 : (c == ' ') = true
  · simp only [h1, ↓reduceIte]
    rcases In.skip j1 with ⟨⟨_, _⟩⟩ | _ | _ <;> rfl
  · simp only [h1, Bool.false_eq_true, ↓reduceIte]
    by_cases h2 : (c == '\t' && st != .no) = true
    · simp only [h2, ↓reduceIte]
      rcases In.skip j1 with ⟨⟨_, _⟩⟩ | _ | _ <;> rfl
    · simp only [h2, Bool.false_eq_true, ↓reduceIte]
      by_cases h3 : (c == '#' && !tab && !ws) = true
      · simp only [h3, ↓reduceIte]; rfl
      · simp only [h3, Bool.false_eq_true, ↓reduceIte]
        by_cases h4 : (c == '#') = true
        · simp only [h4, ↓reduceIte]
          rcases In.skip j1 with ⟨⟨_, j2⟩⟩ | _ | _
          · simp only
            rcases In.dfltSkipWhile (fun c => !isBreakz c) (f + 1) 0 j2 with ⟨⟨_, _⟩⟩ | _ | _ <;> rfl
          · rfl
          · rfl
        · simp only [h4, Bool.false_eq_true, ↓reduceIte]; rfl

theorem wsExpect_hash (tabs : Bool) (i : In) (n : Nat) (tab ws : Bool) (l : Nat) (t : Str)
    (h : (In.strSkipBlanks tabs i.iter n tab ws).2.2.2 = '#' :: t) :
    wsExpect tabs i n tab ws l =
      let q := In.strSkipBlanks tabs i.iter n tab ws
      if !q.2.1 && !q.2.2.1 then .ok ((q.1, .error wsMsg), { i with iter := q.2.2.2, la := l })
      else .ok ((q.1 + (In.spanWhile (fun c => !isBreakz c) q.2.2.2).1, .ok (.result q.2.1 q.2.2.1)),
                { i with iter := (In.spanWhile (fun c => !isBreakz c) q.2.2.2).2, la := l }) := by
  unfold wsExpect
  simp only
  split
  · rfl
  · rename_i hne; exact absurd h (hne _)

theorem wsExpect_nohash (tabs : Bool) (i : In) (n : Nat) (tab ws : Bool) (l : Nat)
    (h : (In.strSkipBlanks tabs i.iter n tab ws).2.2.2.headD '\x00' ≠ '#') :
    wsExpect tabs i n tab ws l =
      let q := In.strSkipBlanks tabs i.iter n tab ws
      .ok ((q.1, .ok (.result q.2.1 q.2.2.1)), { i with iter := q.2.2.2, la := l }) := by
  unfold wsExpect
  simp only
  split
  · rename_i heq; rw [heq] at h; exact absurd rfl h
  · rfl

theorem spanWhile_snd_head (p : Char → Bool) (hp : p '\x00' = false) (l : Str) :
    p ((In.spanWhile p l).2.headD '\x00') = false := by
  induction l with
  | nil => simpa [In.spanWhile] using hp
  | cons c r ih =>
    by_cases hc : p c = true
    · rw [spanWhile_cons_true p c r hc]; exact ih
    · have : p c = false := by simpa using hc
      simp [In.spanWhile, this]

theorem beq_true_eq {a b : Char} (h : (a == b) = true) : a = b := by simpa using h

theorem dfltSkipWs_agree (st : SkipTabs) (tabs : Bool) (hst : (st != SkipTabs.no) = tabs) :
    ∀ (fuel n : Nat) (tab ws : Bool) (i j : In) (l : Nat), SimIn i j →
      AgreeR j (wsExpect tabs i n tab ws l) (In.dfltSkipWs st fuel n tab ws j) := by
  intro fuel
  induction fuel with
  | zero => intro n tab ws i j l h; exact AgreeR.panicR _ _ _
  | succ f ih =>
    intro n tab ws i j l h
    rcases lookCh_step i j h with ⟨q, hq⟩ | ⟨j1, hj1, hs1, hc1, hne1⟩
    · unfold In.dfltSkipWs
      simp only [Bind.bind, hq]
      exact AgreeR.panicR _ _ _
    · rw [dfltSkipWs_step st f n tab ws j j1 _ hj1]
      obtain ⟨j2, hj2, hs2, hc2⟩ := skip_step i j1 hs1 hne1
      have hcap2 : j2.cap = j.cap := by rw [hc2, hc1]
      by_cases h1 : (i.iter.headD '\x00' == ' ') = true
      · -- a space
        rw [if_pos h1, hj2]
        obtain ⟨r, hr⟩ := headD_ne_nul (beq_true_eq h1) (by decide)
        have := ih (n + 1) tab true { i with iter := i.iter.tail } j2 l hs2
        have e : wsExpect tabs i n tab ws l = wsExpect tabs { i with iter := i.iter.tail } (n + 1) tab true l := by
          simp only [wsExpect, hr, ssb_space, List.tail_cons]
        rw [e]
        exact AgreeR.cap hcap2 this
      · rw [if_neg h1]
        by_cases h2 : (i.iter.headD '\x00' == '\t' && st != SkipTabs.no) = true
        · -- a tab that is to be skipped
          rw [if_pos h2, hj2]
          simp only [Bool.and_eq_true] at h2
          obtain ⟨r, hr⟩ := headD_ne_nul (beq_true_eq h2.1) (by decide)
          have ht : tabs = true := by rw [← hst]; exact h2.2
          have := ih (n + 1) true ws { i with iter := i.iter.tail } j2 l hs2
          have e : wsExpect tabs i n tab ws l = wsExpect tabs { i with iter := i.iter.tail } (n + 1) true ws l := by
            simp only [wsExpect, hr, ssb_tab, ht, if_true, List.tail_cons]
          rw [e]
          exact AgreeR.cap hcap2 this
        · rw [if_neg h2]
          by_cases h4 : (i.iter.headD '\x00' == '#') = true
          · -- a comment
            obtain ⟨r, hr⟩ := headD_ne_nul (beq_true_eq h4) (by decide)
            have hq : In.strSkipBlanks tabs i.iter n tab ws = (n, tab, ws, i.iter) :=
              ssb_other tabs i.iter n tab ws (by rw [beq_true_eq h4]; decide) (by rw [beq_true_eq h4]; decide)
            have hx := wsExpect_hash tabs i n tab ws l r (by rw [hq]; exact hr)
            simp only [hq] at hx
            rw [hx]
            by_cases h3 : (i.iter.headD '\x00' == '#' && !tab && !ws) = true
            · rw [if_pos h3]
              have h3' : (!tab && !ws) = true := by
                simp only [h4, Bool.true_and] at h3; exact h3
              rw [if_pos h3']
              simp only [AgreeR]
              exact ⟨by first | trivial | rfl, ⟨h.ki, hs1.kj, hs1.same⟩, hc1⟩
            · rw [if_neg h3, if_pos h4, hj2]
              dsimp only
              have h3' : ¬ (!tab && !ws) = true := by
                intro hh; apply h3; simp only [h4, Bool.true_and]; exact hh
              rw [if_neg h3']
              have ht : i.iter.tail = r := by rw [hr]; rfl
              have hsw := dfltSkipWhile_agree (fun c => !isBreakz c) (by decide) (f + 1) 0
                { i with iter := i.iter.tail } j2 l hs2
              simp only [ht] at hsw
              have hsp : In.spanWhile (fun c => !isBreakz c) i.iter
                  = ((In.spanWhile (fun c => !isBreakz c) r).1 + 1, (In.spanWhile (fun c => !isBreakz c) r).2) := by
                rw [hr]; exact spanWhile_cons_true _ _ r (by decide)
              rw [hsp]
              dsimp only
              cases hw : In.dfltSkipWhile (fun c => !isBreakz c) (f + 1) 0 j2 with
              | panic q => exact AgreeR.panicR _ _ _
              | err e => rw [hw] at hsw; simp [AgreeR] at hsw
              | ok qq =>
                obtain ⟨k, j3⟩ := qq
                rw [hw] at hsw
                simp only [AgreeR] at hsw
                obtain ⟨hk, hs3, hc3⟩ := hsw
                have := ih (n + k + 1) tab ws _ j3 l hs3
                have hhead := spanWhile_snd_head (fun c => !isBreakz c) (by decide) r
                have hb : isBreakz ((In.spanWhile (fun c => !isBreakz c) r).2.headD '\x00') = true := by simpa using hhead
                have hq3 : In.strSkipBlanks tabs (In.spanWhile (fun c => !isBreakz c) r).2 (n + k + 1) tab ws
                    = (n + k + 1, tab, ws, (In.spanWhile (fun c => !isBreakz c) r).2) :=
                  ssb_other _ _ _ _ _ (by intro hh; rw [hh] at hb; revert hb; decide)
                    (by intro hh; rw [hh] at hb; revert hb; decide)
                have hx3 := wsExpect_nohash tabs
                  { i with iter := (In.spanWhile (fun c => !isBreakz c) r).2, la := l } (n + k + 1) tab ws l
                  (by simp only [hq3]; intro hh; rw [hh] at hb; revert hb; decide)
                simp only [hq3] at hx3
                rw [hx3] at this
                have ek : n + ((In.spanWhile (fun c => !isBreakz c) r).1 + 1) = n + k + 1 := by omega
                simp only [ek]
                exact AgreeR.cap (by rw [hc3, hcap2]) this
          · -- anything else ends the run
            have h3 : ¬ (i.iter.headD '\x00' == '#' && !tab && !ws) = true := by
              intro hh; simp only [Bool.and_eq_true] at hh; exact h4 hh.1.1
            rw [if_neg h3, if_neg h4]
            have hne4 : i.iter.headD '\x00' ≠ '#' := by intro hh; apply h4; rw [hh]; rfl
            have hne1' : i.iter.headD '\x00' ≠ ' ' := by intro hh; apply h1; rw [hh]; rfl
            by_cases htab : i.iter.headD '\x00' = '\t'
            · obtain ⟨r, hr⟩ := headD_ne_nul htab (by decide)
              have hno : tabs = false := by
                rw [← hst]
                cases hs : (st != SkipTabs.no) with
                | false => rfl
                | true => exact absurd (by rw [htab, hs]; rfl) h2
              have hq : In.strSkipBlanks tabs i.iter n tab ws = (n, tab, ws, i.iter) := by
                rw [hr, ssb_tab, hno]; rfl
              have hx := wsExpect_nohash tabs i n tab ws l (by rw [hq]; exact hne4)
              simp only [hq] at hx
              rw [hx]
              simp only [AgreeR]
              exact ⟨by first | trivial | rfl, ⟨h.ki, hs1.kj, hs1.same⟩, hc1⟩
            · have hq : In.strSkipBlanks tabs i.iter n tab ws = (n, tab, ws, i.iter) :=
                ssb_other tabs i.iter n tab ws hne1' htab
              have hx := wsExpect_nohash tabs i n tab ws l (by rw [hq]; exact hne4)
              simp only [hq] at hx
              rw [hx]
              simp only [AgreeR]
              exact ⟨by first | trivial | rfl, ⟨h.ki, hs1.kj, hs1.same⟩, hc1⟩

theorem ssb_ws_true (tabs : Bool) : ∀ (s : Str) (n : Nat) (tab : Bool), (In.strSkipBlanks tabs s n tab true).2.2.1 = true := by
  intro s
  induction s with
  | nil => intro n tab; simp [In.strSkipBlanks]
  | cons c r ih =>
    intro n tab
    by_cases h1 : c = ' '
    · subst h1; rw [ssb_space]; exact ih _ _
    · by_cases h2 : c = '\t'
      · subst h2; rw [ssb_tab]; cases tabs
        · rfl
        · exact ih _ _
      · rw [ssb_other _ _ _ _ _ (by simpa using h1) (by simpa using h2)]

theorem ssb_tab_true (tabs : Bool) : ∀ (s : Str) (n : Nat) (ws : Bool), (In.strSkipBlanks tabs s n true ws).2.1 = true := by
  intro s
  induction s with
  | nil => intro n ws; simp [In.strSkipBlanks]
  | cons c r ih =>
    intro n ws
    by_cases h1 : c = ' '
    · subst h1; rw [ssb_space]; exact ih _ _
    · by_cases h2 : c = '\t'
      · subst h2; rw [ssb_tab]; cases tabs
        · rfl
        · exact ih _ _
      · rw [ssb_other _ _ _ _ _ (by simpa using h1) (by simpa using h2)]

/-- if neither a space nor a tab was seen, nothing was consumed -/
theorem ssb_none (tabs : Bool) (s : Str) (n : Nat)
    (ht : (In.strSkipBlanks tabs s n false false).2.1 = false)
    (hw : (In.strSkipBlanks tabs s n false false).2.2.1 = false) :
    (In.strSkipBlanks tabs s n false false).2.2.2 = s := by
  cases s with
  | nil => simp [In.strSkipBlanks]
  | cons c r =>
    by_cases h1 : c = ' '
    · subst h1; rw [ssb_space] at hw; rw [ssb_ws_true] at hw; cases hw
    · by_cases h2 : c = '\t'
      · subst h2
        cases tabs
        · rw [ssb_tab]; rfl
        · rw [ssb_tab] at ht; simp only [if_true] at ht; rw [ssb_tab_true] at ht; cases ht
      · rw [ssb_other _ _ _ _ _ (by simpa using h1) (by simpa using h2)]

/-- two outcomes of the string side that differ only in a state with the same text -/
theorem AgreeR.congrL {α : Type} {j0 : In} {a : α} {i1 i2 : In} {r2 : Sc.Res (α × In)}
    (hk : i1.kind = i2.kind) (hi : i1.iter = i2.iter) (h : AgreeR j0 (.ok (a, i2)) r2) : AgreeR j0 (.ok (a, i1)) r2 := by
  cases r2 with
  | ok q =>
    obtain ⟨b, j⟩ := q
    simp only [AgreeR] at h ⊢
    exact ⟨h.1, ⟨by rw [hk]; exact h.2.1.ki, h.2.1.kj, by rw [hi]; exact h.2.1.same⟩, h.2.2⟩
  | err e => simp [AgreeR] at h
  | panic p => simp [AgreeR]

/-- `skip_ws_to_eol`: `StrInput`'s slice-based override against the trait default (a loop over
`look_ch`/`skip` with a nested comment loop), for both modes the scanner uses -/
theorem skipWsToEol_agree (st : SkipTabs) (hst : st = .yes ∨ st = .no) : Agrees (In.skipWsToEol st) := by
  intro i j h
  have hst' : (st != SkipTabs.no) = (st == SkipTabs.yes) := by rcases hst with rfl | rfl <;> rfl
  have key := dfltSkipWs_agree st (st == SkipTabs.yes) hst' (j.remaining + 2) 0 false false i j i.la h
  have hstr : In.skipWsToEol st i =
      (let q := In.strSkipBlanks (st == SkipTabs.yes) i.iter 0 false false
       match q.2.2.2 with
       | '#' :: _ =>
         if !q.2.1 && !q.2.2.1 then .ok ((q.1, .error wsMsg), i)
         else .ok ((q.1 + (In.spanWhile (fun c => !isBreakz c) q.2.2.2).1, .ok (.result q.2.1 q.2.2.1)),
                   { i with iter := (In.spanWhile (fun c => !isBreakz c) q.2.2.2).2 })
       | _ => .ok ((q.1, .ok (.result q.2.1 q.2.2.1)), { i with iter := q.2.2.2 })) := by
    unfold In.skipWsToEol
    simp only [h.ki]
    rcases hst with rfl | rfl <;> rfl
  have hbuf : In.skipWsToEol st j = In.dfltSkipWs st (j.remaining + 2) 0 false false j := by
    unfold In.skipWsToEol; simp only [h.kj]
  rw [hstr, hbuf]
  unfold wsExpect at key
  simp only at key ⊢
  split
  · rename_i t heq
    simp only [heq] at key
    split
    · rename_i hnn
      rw [if_pos hnn] at key
      have hnn' : (In.strSkipBlanks (st == SkipTabs.yes) i.iter 0 false false).2.1 = false ∧
          (In.strSkipBlanks (st == SkipTabs.yes) i.iter 0 false false).2.2.1 = false := by
        simpa using hnn
      have hnone := ssb_none _ _ _ hnn'.1 hnn'.2
      refine AgreeR.congrL ?_ ?_ key
      · rfl
      · show i.iter = '#' :: t
        rw [← hnone, heq]
    · rename_i hnn
      rw [if_neg hnn] at key
      try simp only [heq]
      refine AgreeR.congrL ?_ ?_ key <;> rfl
  · rename_i hne
    split at key
    · rename_i t heq; exact absurd heq (hne t)
    · refine AgreeR.congrL ?_ ?_ key <;> rfl

end SaphyrModel.C10
