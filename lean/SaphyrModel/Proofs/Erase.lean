import SaphyrModel.Load
/-! Span erasure: the marked loader and the bare loader build the same data (used by Props/C19). -/
namespace SaphyrModel

mutual
/-- forget every span of a node -/
def Node.erase : Node → Node
  | .repr _ v s t => .repr Span.dflt v s t
  | .value _ s => .value Span.dflt s
  | .seq _ xs => .seq Span.dflt (eraseList xs)
  | .map _ ps => .map Span.dflt (erasePairs ps)
  | .alias _ k => .alias Span.dflt k
  | .bad _ => .bad Span.dflt
def eraseList : List Node → List Node
  | [] => []
  | x :: xs => x.erase :: eraseList xs
def erasePairs : List (Node × Node) → List (Node × Node)
  | [] => []
  | (k, v) :: ps => (k.erase, v.erase) :: erasePairs ps
end

theorem eraseList_eq_map (xs : List Node) : eraseList xs = xs.map Node.erase := by
  induction xs with
  | nil => rfl
  | cons x r ih => simp [eraseList, ih]
theorem erasePairs_eq_map (ps : List (Node × Node)) : erasePairs ps = ps.map fun p => (p.1.erase, p.2.erase) := by
  induction ps with
  | nil => rfl
  | cons p r ih => obtain ⟨k, v⟩ := p; simp [erasePairs, ih]

mutual
theorem eqv_erase_left (a b : Node) : Node.eqv a.erase b = Node.eqv a b := by
  cases a <;> cases b <;> simp only [Node.erase, Node.eqv]
  · exact eqvList_erase_left _ _
  · exact eqvPairs_erase_left _ _
theorem eqvList_erase_left (xs ys : List Node) : eqvList (eraseList xs) ys = eqvList xs ys := by
  cases xs <;> cases ys <;> simp only [eraseList, eqvList]
  rw [eqv_erase_left, eqvList_erase_left]
theorem eqvPairs_erase_left (ps qs : List (Node × Node)) : eqvPairs (erasePairs ps) qs = eqvPairs ps qs := by
  cases ps with
  | nil => cases qs <;> simp only [erasePairs, eqvPairs]
  | cons p r =>
    obtain ⟨k, v⟩ := p
    cases qs with
    | nil => simp only [erasePairs, eqvPairs]
    | cons q r' =>
      obtain ⟨k', v'⟩ := q
      simp only [erasePairs, eqvPairs]
      rw [eqv_erase_left, eqv_erase_left, eqvPairs_erase_left]
end

mutual
theorem eqv_erase_right (a b : Node) : Node.eqv a b.erase = Node.eqv a b := by
  cases a <;> cases b <;> simp only [Node.erase, Node.eqv]
  · exact eqvList_erase_right _ _
  · exact eqvPairs_erase_right _ _
theorem eqvList_erase_right (xs ys : List Node) : eqvList xs (eraseList ys) = eqvList xs ys := by
  cases xs <;> cases ys <;> simp only [eraseList, eqvList]
  rw [eqv_erase_right, eqvList_erase_right]
theorem eqvPairs_erase_right (ps qs : List (Node × Node)) : eqvPairs ps (erasePairs qs) = eqvPairs ps qs := by
  cases ps with
  | nil => cases qs with
    | nil => simp only [erasePairs, eqvPairs]
    | cons q r' => obtain ⟨k', v'⟩ := q; simp only [erasePairs, eqvPairs]
  | cons p r =>
    obtain ⟨k, v⟩ := p
    cases qs with
    | nil => simp only [erasePairs, eqvPairs]
    | cons q r' =>
      obtain ⟨k', v'⟩ := q
      simp only [erasePairs, eqvPairs]
      rw [eqv_erase_right, eqv_erase_right, eqvPairs_erase_right]
end

theorem eqv_erase (a b : Node) : Node.eqv a.erase b.erase = Node.eqv a b := by
  rw [eqv_erase_left, eqv_erase_right]

theorem mapInsert_erase (k v : Node) (m : List (Node × Node)) :
    erasePairs (mapInsert k v m) = mapInsert k.erase v.erase (erasePairs m) := by
  unfold mapInsert
  have hf : (erasePairs m).find? (fun p => Node.eqv p.1 k.erase) =
      (m.find? (fun p => Node.eqv p.1 k)).map fun p => (p.1.erase, p.2.erase) := by
    rw [erasePairs_eq_map, List.find?_map]
    congr 2
    funext p
    simp [eqv_erase]
  rw [hf]
  cases h : m.find? (fun p => Node.eqv p.1 k) with
  | none => simp [erasePairs_eq_map]
  | some p =>
    simp only [Option.map_some, erasePairs_eq_map, List.map_append, List.map_cons, List.map_nil, List.filter_map]
    congr 2
    apply List.filter_congr
    intro q _
    simp [eqv_erase]

/-- forget every span in a loader state -/
def LSt.erase (s : LSt) : LSt :=
  { docs := eraseList s.docs
    docStack := s.docStack.map fun p => (p.1.erase, p.2)
    keyStack := s.keyStack.map fun o => o.map Node.erase
    anchors := s.anchors.map fun p => (p.1, p.2.erase) }

def LRes.erase : LRes → LRes
  | .ok s => .ok s.erase
  | .panic p => .panic p

theorem anchorsInsert_erase (a : List (Nat × Node)) (id : Nat) (n : Node) :
    (anchorsInsert a id n).map (fun p => (p.1, p.2.erase)) =
      anchorsInsert (a.map fun p => (p.1, p.2.erase)) id n.erase := by
  simp [anchorsInsert, List.filter_map, Function.comp_def]

theorem anchorsGet_erase (a : List (Nat × Node)) (id : Nat) :
    anchorsGet (a.map fun p => (p.1, p.2.erase)) id = (anchorsGet a id).map Node.erase := by
  simp [anchorsGet, List.find?_map, Function.comp_def]

theorem erase_idem_scalarNode (e : Bool) (v : Str) (st : ScalarStyle) (t : Option Tag) :
    (scalarNode e v st t).erase = scalarNode e v st t := by
  unfold scalarNode
  split
  · split <;> rfl
  · rfl

theorem withSpan_erase (n : Node) (sp : Span) : (Node.withSpan true n sp).erase = n.erase := by
  cases n <;> rfl

/-- `insert_new_node` commutes with span erasure -/
theorem insertNewNode_erase (s : LSt) (n : Node) (aid : Nat) :
    insertNewNode s.erase n.erase aid = (insertNewNode s n aid).erase := by
  unfold insertNewNode
  have hanch : ∀ s : LSt, (if aid > 0 then { s with anchors := anchorsInsert s.anchors aid n } else s).erase =
      (if aid > 0 then { s.erase with anchors := anchorsInsert s.erase.anchors aid n.erase } else s.erase) := by
    intro s; split
    · simp only [LSt.erase, anchorsInsert_erase]
    · rfl
  rw [← hanch]
  generalize (if aid > 0 then { s with anchors := anchorsInsert s.anchors aid n } else s) = s1
  obtain ⟨docs, ds, ks, an⟩ := s1
  cases ds with
  | nil => simp [LSt.erase, LRes.erase, eraseList]
  | cons top rest =>
    obtain ⟨tn, ta⟩ := top
    cases tn with
    | seq sp items =>
      simp only [LSt.erase, LRes.erase, List.map_cons, Node.erase, eraseList_eq_map, List.map_append, List.map_cons, List.map_nil]
    | map sp m =>
      cases ks with
      | nil => simp [LSt.erase, LRes.erase, Node.erase]
      | cons k0 ks =>
        cases k0 with
        | none => simp [LSt.erase, LRes.erase, Node.erase]
        | some k => simp [LSt.erase, LRes.erase, Node.erase, mapInsert_erase]
    | repr sp v st t => simp [LSt.erase, LRes.erase, Node.erase]
    | value sp x => simp [LSt.erase, LRes.erase, Node.erase]
    | alias sp k => simp [LSt.erase, LRes.erase, Node.erase]
    | bad sp => simp [LSt.erase, LRes.erase, Node.erase]

/-- one event: the bare loader on the erased state does what the marked loader does, erased -/
theorem onEvent_erase (early : Bool) (s : LSt) (e : Event) (sp : Span) :
    onEvent ⟨false, early⟩ s.erase e sp = (onEvent ⟨true, early⟩ s e sp).erase := by
  cases e with
  | streamStart => rfl
  | streamEnd => rfl
  | documentStart _ => rfl
  | documentEnd =>
    obtain ⟨docs, ds, ks, an⟩ := s
    cases ds with
    | nil => simp [onEvent, LSt.erase, LRes.erase, Node.withSpan, eraseList_eq_map, Node.erase]
    | cons top rest =>
      obtain ⟨tn, ta⟩ := top
      cases rest with
      | nil => simp [onEvent, LSt.erase, LRes.erase, eraseList_eq_map]
      | cons _ _ => simp [onEvent, LSt.erase, LRes.erase]
  | sequenceStart aid t =>
    simp [onEvent, LSt.erase, LRes.erase, Node.withSpan, Node.erase, eraseList]
  | mappingStart aid t =>
    simp [onEvent, LSt.erase, LRes.erase, Node.withSpan, Node.erase, erasePairs]
  | sequenceEnd =>
    obtain ⟨docs, ds, ks, an⟩ := s
    cases ds with
    | nil => simp [onEvent, LSt.erase, LRes.erase]
    | cons top rest =>
      obtain ⟨tn, ta⟩ := top
      simp only [onEvent, LSt.erase, List.map_cons]
      exact insertNewNode_erase ⟨docs, rest, ks, an⟩ tn ta
  | mappingEnd =>
    obtain ⟨docs, ds, ks, an⟩ := s
    cases ks with
    | nil => simp [onEvent, LSt.erase, LRes.erase]
    | cons k0 ks =>
      cases ds with
      | nil => simp [onEvent, LSt.erase, LRes.erase]
      | cons top rest =>
        obtain ⟨tn, ta⟩ := top
        simp only [onEvent, LSt.erase, List.map_cons]
        exact insertNewNode_erase ⟨docs, rest, ks, an⟩ tn ta
  | scalar v st aid t =>
    simp only [onEvent, Node.withSpan, Bool.not_false, Bool.not_true, Bool.false_eq_true, ↓reduceIte]
    have := insertNewNode_erase s (Node.withSpan true (scalarNode early v st t) sp) aid
    rw [withSpan_erase, erase_idem_scalarNode] at this
    simpa [Node.withSpan] using this
  | alias id =>
    simp only [onEvent, Node.withSpan, Bool.not_false, Bool.not_true, Bool.false_eq_true, ↓reduceIte]
    have := insertNewNode_erase s (Node.withSpan true ((anchorsGet s.anchors id).getD (.bad Span.dflt)) sp) 0
    rw [withSpan_erase] at this
    have h2 : ((anchorsGet s.anchors id).getD (.bad Span.dflt)).erase =
        (anchorsGet s.erase.anchors id).getD (.bad Span.dflt) := by
      simp only [LSt.erase, anchorsGet_erase]
      cases anchorsGet s.anchors id <;> rfl
    rw [h2] at this
    simpa [Node.withSpan] using this

/-- **All event lists**: loading bare nodes from the erased state is loading marked nodes, erased -/
theorem foldEvents_erase (early : Bool) (s : LSt) (evs : List (Event × Span)) :
    foldEvents ⟨false, early⟩ s.erase evs = (foldEvents ⟨true, early⟩ s evs).erase := by
  induction evs generalizing s with
  | nil => rfl
  | cons e es ih =>
    obtain ⟨ev, sp⟩ := e
    simp only [foldEvents]
    rw [onEvent_erase]
    cases onEvent ⟨true, early⟩ s ev sp with
    | ok s' => exact ih s'
    | panic p => rfl

end SaphyrModel
