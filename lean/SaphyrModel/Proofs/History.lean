import SaphyrModel.Api
/-! Histories of `peek` / `next` calls against plain iteration (used by Props/C17). -/
namespace SaphyrModel

/-- the cached event and the end flag exclude each other -/
def Api.Ok (a : Api) : Prop := a.endEmitted = true → a.current = none

theorem nextImpl_current {a : Api} {v : Ev} {a' : Api} (h : nextImpl a = .ok (v, a')) :
    a'.current = none ∧ a'.endEmitted = a.endEmitted := by
  unfold nextImpl at h
  cases hc : a.current with
  | some x =>
    simp only [hc, Res.ok.injEq, Prod.mk.injEq] at h
    obtain ⟨_, rfl⟩ := h; exact ⟨rfl, rfl⟩
  | none =>
    simp only [hc] at h
    cases hp : parseStep a.p with
    | err e => simp [hp] at h
    | panic x => simp [hp] at h
    | ok o =>
      obtain ⟨ev, sp, p'⟩ := o
      simp only [hp, Res.ok.injEq, Prod.mk.injEq] at h
      obtain ⟨_, rfl⟩ := h; exact ⟨rfl, rfl⟩

theorem Api.next_ok {a : Api} (h : a.Ok) : (a.next).2.Ok := by
  unfold Api.next
  split
  · exact h
  · cases hn : nextImpl a with
    | ok r => obtain ⟨v, a'⟩ := r; intro _; exact (nextImpl_current hn).1
    | err e => exact h
    | panic x => exact h

theorem Api.peek_ok {a : Api} (h : a.Ok) : (a.peek).2.Ok := by
  unfold Api.peek
  cases hc : a.current with
  | some x => simpa [hc] using h
  | none =>
    simp only
    split
    · exact h
    · rename_i he
      cases hn : nextImpl a with
      | ok r =>
        obtain ⟨v, a'⟩ := r
        intro h'
        have := (nextImpl_current hn).2
        simp only at h'
        rw [this] at h'; exact absurd h' he
      | err e => exact h
      | panic x => exact h

theorem Api.next_cached {a : Api} {x : Ev} (hc : a.current = some x) (he : a.endEmitted = false) :
    a.next = (some (.ok x), { a with current := none, endEmitted := x.1 == .streamEnd }) := by
  simp [Api.next, he, nextImpl, hc]

/-- a successful `peek` does not change what `next` does afterwards, and shows what it will return -/
theorem Api.next_after_peek {a : Api} (ha : a.Ok) {v : Ev} {a1 : Api} (h : a.peek = (some (.ok v), a1)) :
    a1.next = a.next ∧ (a.next).1 = some (.ok v) := by
  unfold Api.peek at h
  cases hc : a.current with
  | some x =>
    simp only [hc, Prod.mk.injEq, Option.some.injEq, Res.ok.injEq] at h
    obtain ⟨rfl, rfl⟩ := h
    have he : a.endEmitted = false := by
      cases hb : a.endEmitted with
      | false => rfl
      | true => have := ha hb; rw [hc] at this; exact absurd this (by simp)
    exact ⟨rfl, by rw [Api.next_cached hc he]⟩
  | none =>
    simp only [hc] at h
    cases he : a.endEmitted with
    | true => simp [he] at h
    | false =>
      simp only [he, Bool.false_eq_true, ↓reduceIte] at h
      cases hn : nextImpl a with
      | err e => simp [hn] at h
      | panic x => simp [hn] at h
      | ok r =>
        obtain ⟨w, a'⟩ := r
        simp only [hn, Prod.mk.injEq, Option.some.injEq, Res.ok.injEq] at h
        obtain ⟨rfl, rfl⟩ := h
        obtain ⟨hc', he'⟩ := nextImpl_current hn
        have h1 : ({ a' with current := some w } : Api).next =
            (some (.ok w), { a' with current := none, endEmitted := w.1 == .streamEnd }) :=
          Api.next_cached rfl (by simp [he', he])
        have h2 : a.next = (some (.ok w), { a' with endEmitted := w.1 == .streamEnd }) := by
          simp [Api.next, he, hn]
        rw [h1, h2]
        refine ⟨?_, rfl⟩
        cases a'; simp_all

theorem runCalls_acc (cs : List Call) (a : Api) (acc : List (Call × Option (Res Ev))) :
    runCalls cs a acc = acc.reverse ++ runCalls cs a [] := by
  induction cs generalizing a acc with
  | nil => simp [runCalls]
  | cons c cs ih =>
    simp only [runCalls]
    split
    · simp
    · simp
    · rw [ih, ih (acc := [_])]; simp

/-- the events returned by the successful `next` calls of a history -/
def nextOks : List (Call × Option (Res Ev)) → List Ev
  | [] => []
  | (.next, some (.ok v)) :: r => v :: nextOks r
  | _ :: r => nextOks r

theorem iterate_acc (fuel : Nat) (a : Api) (acc : List Ev) :
    (iterate fuel a acc).1 = acc.reverse ++ (iterate fuel a []).1 := by
  induction fuel generalizing a acc with
  | zero => simp [iterate]
  | succ n ih =>
    simp only [iterate]
    split
    · simp
    · rw [ih, ih (acc := [_])]; simp
    · simp
    · simp

/-- more fuel only extends the iteration -/
theorem iterate_mono (n : Nat) (a : Api) : (iterate n a []).1 <+: (iterate (n + 1) a []).1 := by
  induction n generalizing a with
  | zero => simp [iterate]
  | succ m ih =>
    rw [iterate, iterate]
    cases hx : a.next with
    | mk r a' =>
      cases r with
      | none => simp
      | some rv =>
        cases rv with
        | ok v =>
          simp only
          rw [iterate_acc, iterate_acc (acc := [v])]
          exact (List.prefix_append_right_inj _).2 (ih a')
        | err e => simp
        | panic x => simp

/-- **Every interleaving of `peek` and `next` tells the story of plain iteration.** From any state
    in which the cached event and the end flag exclude each other (in particular a fresh parser),
    the events returned by the `next` calls of a history of at most `fuel` calls are a prefix of
    the events of plain iteration from the same state. -/
theorem nexts_prefix_of_iteration (h : List Call) (a : Api) (ha : a.Ok) (fuel : Nat) (hf : h.length ≤ fuel) :
    nextOks (runCalls h a []) <+: (iterate fuel a []).1 := by
  induction h generalizing a fuel with
  | nil => simp [runCalls, nextOks]
  | cons c cs ih =>
    cases fuel with
    | zero => simp at hf
    | succ n =>
      have hn : cs.length ≤ n := by simpa using hf
      cases c with
      | next =>
        simp only [runCalls]
        cases hx : a.next with
        | mk r a' =>
          have hok : a'.Ok := by have := Api.next_ok ha; rw [hx] at this; exact this
          cases r with
          | none =>
            simp only
            rw [runCalls_acc]
            -- after `None` the state is unchanged and the iteration is over
            simp only [iterate, hx, List.reverse_nil]
            have : nextOks ([(Call.next, (none : Option (Res Ev)))].reverse ++ runCalls cs a' []) = nextOks (runCalls cs a' []) := by
              simp [nextOks]
            rw [this]
            have hnone := ih a' hok n hn
            -- from a' (= a, end flag set) iteration yields nothing
            have ha' : a' = a ∧ a.endEmitted = true := by
              unfold Api.next at hx
              split at hx
              · rename_i he; simp at hx; exact ⟨hx.symm, he⟩
              · cases hnx : nextImpl a <;> simp [hnx] at hx
            obtain ⟨rfl, he⟩ := ha'
            have : (iterate n a' []).1 = [] := by
              cases n with
              | zero => simp [iterate]
              | succ m => simp [iterate, Api.next, he]
            rw [this] at hnone; exact hnone
          | some rv =>
            cases rv with
            | ok v =>
              simp only
              rw [runCalls_acc]
              simp only [iterate, hx]
              rw [iterate_acc]
              simp only [List.reverse_cons, List.reverse_nil, List.nil_append, List.singleton_append, nextOks]
              exact List.prefix_cons_inj v |>.2 (ih a' hok n hn)
            | err e => simp [nextOks]
            | panic x => simp [nextOks]
      | peek =>
        simp only [runCalls]
        cases hx : a.peek with
        | mk r a' =>
          have hok : a'.Ok := by have := Api.peek_ok ha; rw [hx] at this; exact this
          cases r with
          | none =>
            simp only
            rw [runCalls_acc]
            have : nextOks ([(Call.peek, (none : Option (Res Ev)))].reverse ++ runCalls cs a' []) = nextOks (runCalls cs a' []) := by
              simp [nextOks]
            rw [this]
            have ha' : a' = a := by
              unfold Api.peek at hx
              cases hc : a.current with
              | some x => simp [hc] at hx
              | none =>
                simp only [hc] at hx
                split at hx
                · simp at hx; exact hx.symm
                · cases hnx : nextImpl a <;> simp [hnx] at hx
            subst ha'
            exact (ih a' hok n hn).trans (iterate_mono n a')
          | some rv =>
            cases rv with
            | ok v =>
              simp only
              rw [runCalls_acc]
              have : nextOks ([(Call.peek, some (Res.ok v))].reverse ++ runCalls cs a' []) = nextOks (runCalls cs a' []) := by
                simp [nextOks]
              rw [this]
              -- iteration from a' is iteration from a
              have heq : ∀ k, (iterate k a' []).1 = (iterate k a []).1 := by
                intro k
                cases k with
                | zero => simp [iterate]
                | succ m => simp only [iterate, (Api.next_after_peek ha hx).1]
              have := ih a' hok n hn
              rw [heq] at this
              exact this.trans (iterate_mono n a)
            | err e => simp [nextOks]
            | panic x => simp [nextOks]

end SaphyrModel
