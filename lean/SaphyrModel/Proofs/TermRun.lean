import SaphyrModel.Proofs.Term
import SaphyrModel.Proofs.Run
/-! The iterator terminates: from the potential of `Term.lean` and the run invariant of `Run.lean`. -/
namespace SaphyrModel

theorem next_phi {a a' : Api} {v : Ev} (hc : a.current = none) (hl : a.endEmitted = false)
    (hne : a.p.state ≠ .end) (h : a.next = (some (.ok v), a')) : phi a'.p < phi a.p := by
  unfold Api.next at h
  simp only [hl, Bool.false_eq_true, ↓reduceIte] at h
  unfold nextImpl at h
  simp only [hc] at h
  have hb := parseStep_below a.p hne
  cases hp : parseStep a.p with
  | err e => simp [hp] at h
  | panic x => simp [hp] at h
  | ok o =>
    obtain ⟨ev, sp, p'⟩ := o
    simp only [hp, Below] at hb
    simp only [hp, Prod.mk.injEq, Option.some.injEq, Res.ok.injEq] at h
    obtain ⟨_, rfl⟩ := h
    exact hb

/-- what fuel the iterator needs from a given state -/
def need (a : Api) : Nat := if a.endEmitted then 1 else phi a.p + 2

/-- **The iterator never runs out of fuel**: with at least `need a` steps allowed, iteration from a
    state satisfying the run invariant ends in `None` or in an error value — never in a panic, and
    in particular not by exhausting the fuel. -/
theorem iterSpec_terminates (fuel : Nat) (a : Api) (g : G) (h : IterInv a g) (hf : need a ≤ fuel) :
    ∀ x, (iterSpec fuel a).2 ≠ some (.panic x) := by
  induction fuel generalizing a g with
  | zero => unfold need at hf; split at hf <;> omega
  | succ n ih =>
    simp only [iterSpec]
    cases hl : a.endEmitted with
    | true =>
      have : a.next = (none, a) := by simp [Api.next, hl]
      simp [this]
    | false =>
      have hn := next_step h hl
      rcases hnx : a.next with ⟨r, a'⟩
      rw [hnx] at hn
      cases r with
      | none => simp at hn
      | some r =>
        cases r with
        | err e => simp
        | panic x => simp at hn
        | ok v =>
          simp only at hn ⊢
          obtain ⟨g1, _, hI⟩ := hn
          have hdec := next_phi h.cur hl (h.live hl) hnx
          apply ih a' g1 hI
          unfold need at hf ⊢
          simp only [hl, Bool.false_eq_true, ↓reduceIte] at hf
          split <;> omega

theorem iterate_terminates (fuel : Nat) (a : Api) (g : G) (h : IterInv a g) (hf : need a ≤ fuel) :
    ∀ x, (iterate fuel a []).2 ≠ some (.panic x) := by
  rw [iterate_eq]; simpa using iterSpec_terminates fuel a g h hf

/-- the potential of a fresh parser is linear in the number of tokens -/
theorem phi_init (toks : List Token) (scanErr : Option ScanError) (eof : Marker) (keep : Bool) :
    phi (PState.init toks scanErr eof keep) = 16 * toks.length + 1 := by
  simp [phi, wt, PState.init, rk]

end SaphyrModel
