import SaphyrModel.Proofs.StrEval
import SaphyrModel.Sc.KS.Base
import SaphyrModel.Emitter
/-! Double-quoted scalars: the scanner decodes what the emitter's `escape_str` writes
(used by Props/C04, C09, C13). -/
namespace SaphyrModel.Sc
open SaphyrModel ProtoE

/-- an ordinary character inside double quotes is taken as it is -/
theorem cnw_plain (c : Char) (h1 : isBlankOrBreakz c = false) (h2 : c ≠ '"') (h3 : c ≠ '\\')
    (s : Sc) (k l fuel : Nat) (str : Str) (lb : Bool) (sm : Marker) (tail : Str)
    (hk : s.inp.kind = .str) (hd : s.inp.iter.drop k = c :: tail) :
    consumeNonWs false sm (fuel + 1) str lb (advL s k l) =
      consumeNonWs false sm fuel (str ++ [c]) lb (advL s (k + 1) (max l 2)) := by
  conv => lhs; unfold consumeNonWs
  rw [bind_eq (peek_advL s k l hk)]
  simp only [hd, List.headD_cons, h1, Bool.false_eq_true, ↓reduceIte, Bool.and_false, Bool.not_false, Bool.and_true]
  have e2 : (c == '"') = false := by simpa using h2
  have e3 : (c == '\\') = false := by simpa using h3
  simp only [e2, e3, Bool.false_eq_true, ↓reduceIte]
  rw [bind_eq (skipNonBlank_str s l k hk), bind_eq (lookahead_advL s (k + 1) l 2 hk)]

theorem getD_one {a b : Char} {t : Str} : (a :: b :: t).getD 1 '\x00' = b := rfl

/-- a two-character escape with a named meaning -/
theorem cnw_named (e ch : Char) (hn : namedEscape e = some ch) (hb : isBreak e = false)
    (s : Sc) (k l fuel : Nat) (str : Str) (lb : Bool) (sm : Marker) (tail : Str)
    (hk : s.inp.kind = .str) (hd : s.inp.iter.drop k = '\\' :: e :: tail) :
    consumeNonWs false sm (fuel + 1) str lb (advL s k l) =
      consumeNonWs false sm fuel (str ++ [ch]) lb (advL s (k + 2) (max l 2)) := by
  conv => lhs; unfold consumeNonWs
  rw [bind_eq (peek_advL s k l hk)]
  simp only [hd, List.headD_cons]
  have e1 : isBlankOrBreakz '\\' = false := by decide
  simp only [e1, Bool.false_eq_true, ↓reduceIte, Bool.and_false, Bool.not_false, Bool.and_true,
    show ('\\' == '"') = false by decide, show ('\\' == '\\') = true by decide]
  rw [bind_eq (peekNth_advL s k l 1 hk)]
  simp only [hd, getD_one, hb, Bool.false_eq_true, ↓reduceIte]
  have hres : resolveEscape sm (advL s k l) = .ok (ch, advL s (k + 2) l) := by
    unfold resolveEscape
    rw [bind_eq (peekNth_advL s k l 1 hk)]
    simp only [hd, getD_one, hn]
    rw [bind_eq (skipNNonBlank_str s 2 l k hk)]
    rfl
  rw [bind_eq hres, bind_eq (lookahead_advL s (k + 2) l 2 hk)]

/-- the hexadecimal digit the emitter writes for `k < 16` -/
def hexd (k : Nat) : Char := if k < 10 then Char.ofNat (48 + k) else Char.ofNat (87 + k)
theorem hex2_eq (n : Nat) : hex2 n = [hexd (n / 16), hexd (n % 16)] := rfl
theorem hexd_ok : ∀ k : Fin 16, isHex (hexd k.val) = true ∧ asHex (hexd k.val) = k.val := by decide
theorem hexd_isHex (k : Nat) (h : k < 16) : isHex (hexd k) = true := (hexd_ok ⟨k, h⟩).1
theorem hexd_asHex (k : Nat) (h : k < 16) : asHex (hexd k) = k := (hexd_ok ⟨k, h⟩).2

theorem ofNatAux_toNat (c : Char) (h : c.toNat.isValidChar) : Char.ofNatAux c.toNat h = c := by
  apply Char.ext; simp only [Char.ofNatAux]
  apply UInt32.toNat.inj
  show (BitVec.ofNatLT _ _).toNat = _
  simp only [BitVec.toNat_ofNatLT]; rfl

/-- a `\u00XX` escape written by the emitter for a character below U+0100 -/
theorem cnw_u00 (c : Char) (hc : c.toNat < 256)
    (s : Sc) (k l fuel : Nat) (str : Str) (lb : Bool) (sm : Marker) (tail : Str)
    (hk : s.inp.kind = .str) (hd : s.inp.iter.drop k = ['\\', 'u', '0', '0'] ++ hex2 c.toNat ++ tail) :
    ∃ l', consumeNonWs false sm (fuel + 1) str lb (advL s k l) =
      consumeNonWs false sm fuel (str ++ [c]) lb (advL s (k + 6) l') := by
  have hd' : s.inp.iter.drop k = '\\' :: 'u' :: '0' :: '0' :: hexd (c.toNat / 16) :: hexd (c.toNat % 16) :: tail := by
    rw [hd, hex2_eq]; rfl
  have hhi : c.toNat / 16 < 16 := by omega
  have hlo : c.toNat % 16 < 16 := by omega
  have hd2 : s.inp.iter.drop (k + 2) = '0' :: '0' :: hexd (c.toNat / 16) :: hexd (c.toNat % 16) :: tail := by
    rw [← List.drop_drop, hd']; rfl
  refine ⟨max (max l 4) 2, ?_⟩
  conv => lhs; unfold consumeNonWs
  rw [bind_eq (peek_advL s k l hk)]
  simp only [hd', List.headD_cons]
  have e1 : isBlankOrBreakz '\\' = false := by decide
  simp only [e1, Bool.false_eq_true, ↓reduceIte, Bool.and_false, Bool.not_false, Bool.and_true,
    show ('\\' == '"') = false by decide, show ('\\' == '\\') = true by decide]
  rw [bind_eq (peekNth_advL s k l 1 hk)]
  simp only [hd', getD_one, show isBreak 'u' = false by decide, Bool.false_eq_true, ↓reduceIte]
  have hres : resolveEscape sm (advL s k l) = .ok (c, advL s (k + 6) (max l 4)) := by
    unfold resolveEscape
    rw [bind_eq (peekNth_advL s k l 1 hk)]
    simp only [hd', getD_one, show namedEscape 'u' = none by decide,
      show ('u' == 'x') = false by decide, show ('u' == 'u') = true by decide, Bool.false_eq_true, ↓reduceIte,
      show ((4 : Nat) == 0) = false by decide]
    rw [bind_eq (skipNNonBlank_str s 2 l k hk), bind_eq (lookahead_advL s (k + 2) l 4 hk)]
    -- the four hexadecimal digits
    have hhex : hexLoop sm 4 4 0 (advL s (k + 2) (max l 4)) = .ok (c.toNat, advL s (k + 2) (max l 4)) := by
      simp only [hexLoop]
      rw [bind_eq (peekNth_advL s (k + 2) _ (4 - 4) hk)]
      simp only [hd2, show (4 : Nat) - 4 = 0 by rfl, List.getD_cons_zero, show isHex '0' = true by decide,
        Bool.not_true, Bool.false_eq_true, ↓reduceIte]
      rw [bind_eq (peekNth_advL s (k + 2) _ (4 - 3) hk)]
      simp only [hd2, show (4 : Nat) - 3 = 1 by rfl, getD_one, show isHex '0' = true by decide,
        Bool.not_true, Bool.false_eq_true, ↓reduceIte]
      rw [bind_eq (peekNth_advL s (k + 2) _ (4 - 2) hk)]
      have g2 : ('0' :: '0' :: hexd (c.toNat / 16) :: hexd (c.toNat % 16) :: tail).getD 2 '\x00' = hexd (c.toNat / 16) := rfl
      have g3 : ('0' :: '0' :: hexd (c.toNat / 16) :: hexd (c.toNat % 16) :: tail).getD 3 '\x00' = hexd (c.toNat % 16) := rfl
      simp only [hd2, show (4 : Nat) - 2 = 2 by rfl, g2, hexd_isHex _ hhi, Bool.not_true, Bool.false_eq_true, ↓reduceIte]
      rw [bind_eq (peekNth_advL s (k + 2) _ (4 - 1) hk)]
      simp only [hd2, show (4 : Nat) - 1 = 3 by rfl, g3, hexd_isHex _ hlo, Bool.not_true, Bool.false_eq_true, ↓reduceIte,
        hexd_asHex _ hhi, hexd_asHex _ hlo, show asHex '0' = 0 by decide]
      have : ((0 * 16 + 0) * 16 + c.toNat / 16) * 16 + c.toNat % 16 = c.toNat := by omega
      rw [this]; rfl
    rw [bind_eq hhex]
    have hv : c.toNat.isValidChar := c.valid
    simp only [hv, ↓reduceDIte]
    rw [bind_eq (skipNNonBlank_str s 4 _ (k + 2) hk)]
    simp only [Pure.pure, ofNatAux_toNat]
  rw [bind_eq hres, bind_eq (lookahead_advL s (k + 6) _ 2 hk)]

/-- **One character.** Whatever character `c` (other than a space) the emitter escaped, one iteration
    of the scanner's inner loop reads exactly `escChar c` and appends `c`. -/
theorem cnw_char (c : Char) (hsp : c ≠ ' ')
    (s : Sc) (k l fuel : Nat) (str : Str) (lb : Bool) (sm : Marker) (tail : Str)
    (hk : s.inp.kind = .str) (hd : s.inp.iter.drop k = escChar c ++ tail) :
    ∃ l', consumeNonWs false sm (fuel + 1) str lb (advL s k l) =
      consumeNonWs false sm fuel (str ++ [c]) lb (advL s (k + (escChar c).length) l') := by
  unfold escChar at hd ⊢
  by_cases h1 : c = '"'
  · subst h1; simp only [↓reduceIte] at hd ⊢
    exact ⟨_, cnw_named '"' '"' (by decide) (by decide) s k l fuel str lb sm tail hk hd⟩
  simp only [h1, ↓reduceIte] at hd ⊢
  by_cases h2 : c = '\\'
  · subst h2; simp only [↓reduceIte] at hd ⊢
    exact ⟨_, cnw_named '\\' '\\' (by decide) (by decide) s k l fuel str lb sm tail hk hd⟩
  simp only [h2, ↓reduceIte] at hd ⊢
  by_cases h3 : c = '\x08'
  · subst h3; simp only [↓reduceIte] at hd ⊢
    exact ⟨_, cnw_named 'b' '\x08' (by decide) (by decide) s k l fuel str lb sm tail hk hd⟩
  simp only [h3, ↓reduceIte] at hd ⊢
  by_cases h4 : c = '\t'
  · subst h4; simp only [↓reduceIte] at hd ⊢
    exact ⟨_, cnw_named 't' '\t' (by decide) (by decide) s k l fuel str lb sm tail hk hd⟩
  simp only [h4, ↓reduceIte] at hd ⊢
  by_cases h5 : c = '\n'
  · subst h5; simp only [↓reduceIte] at hd ⊢
    exact ⟨_, cnw_named 'n' '\n' (by decide) (by decide) s k l fuel str lb sm tail hk hd⟩
  simp only [h5, ↓reduceIte] at hd ⊢
  by_cases h6 : c = '\x0c'
  · subst h6; simp only [↓reduceIte] at hd ⊢
    exact ⟨_, cnw_named 'f' '\x0c' (by decide) (by decide) s k l fuel str lb sm tail hk hd⟩
  simp only [h6, ↓reduceIte] at hd ⊢
  by_cases h7 : c = '\r'
  · subst h7; simp only [↓reduceIte] at hd ⊢
    exact ⟨_, cnw_named 'r' '\r' (by decide) (by decide) s k l fuel str lb sm tail hk hd⟩
  simp only [h7, ↓reduceIte] at hd ⊢
  by_cases h8 : c.toNat < 0x20 ∨ c = '\x7f'
  · simp only [h8, ↓reduceIte] at hd ⊢
    have hlt : c.toNat < 256 := by
      rcases h8 with h | h
      · omega
      · subst h; decide
    obtain ⟨l', hl'⟩ := cnw_u00 c hlt s k l fuel str lb sm tail hk hd
    exact ⟨l', by simpa [hex2_eq] using hl'⟩
  · simp only [h8, ↓reduceIte] at hd ⊢
    have hnb : isBlankOrBreakz c = false := by
      simp only [not_or, Nat.not_lt] at h8
      have hz : c ≠ '\x00' := by intro h; subst h; exact absurd h8.1 (by decide)
      simp [isBlankOrBreakz, isBlank, isBreakz, isBreak, isZ, hsp, h4, h5, h7, hz]
    exact ⟨_, cnw_plain c hnb h1 h2 s k l fuel str lb sm tail hk (by simpa using hd)⟩

theorem flatMap_cons_esc (c : Char) (w : Str) : (c :: w).flatMap escChar = escChar c ++ w.flatMap escChar := by
  simp [List.flatMap_cons]

/-- the inner loop stops in front of a space or the closing quote -/
theorem cnw_stop (x : Char) (hx : x = ' ' ∨ x = '"')
    (s : Sc) (k l fuel : Nat) (str : Str) (lb : Bool) (sm : Marker) (tail : Str)
    (hk : s.inp.kind = .str) (hd : s.inp.iter.drop k = x :: tail) :
    consumeNonWs false sm (fuel + 1) str lb (advL s k l) = .ok ((str, lb), advL s k l) := by
  conv => lhs; unfold consumeNonWs
  rw [bind_eq (peek_advL s k l hk)]
  simp only [hd, List.headD_cons]
  rcases hx with rfl | rfl
  · simp [show isBlankOrBreakz ' ' = true by decide, Pure.pure]
  · simp [show isBlankOrBreakz '"' = false by decide, Pure.pure]

/-- **A word.** A run of characters without spaces, as the emitter escaped it, followed by a space
    or the closing quote: the inner loop reads it completely and appends exactly the run. -/
theorem cnw_word (w : Str) (hw : ∀ c ∈ w, c ≠ ' ') (x : Char) (hx : x = ' ' ∨ x = '"') (sm : Marker)
    (s : Sc) (hk : s.inp.kind = .str) : ∀ (k l fuel : Nat) (str : Str) (lb : Bool) (tail : Str),
    w.length + 1 ≤ fuel → s.inp.iter.drop k = w.flatMap escChar ++ x :: tail →
    ∃ l', consumeNonWs false sm fuel str lb (advL s k l) =
      .ok ((str ++ w, lb), advL s (k + (w.flatMap escChar).length) l') := by
  induction w with
  | nil =>
    intro k l fuel str lb tail hf hd
    obtain ⟨f, rfl⟩ : ∃ f, fuel = f + 1 := ⟨fuel - 1, by simp at hf; omega⟩
    exact ⟨l, by simpa using cnw_stop x hx s k l f str lb sm tail hk (by simpa using hd)⟩
  | cons c w ih =>
    intro k l fuel str lb tail hf hd
    obtain ⟨f, rfl⟩ : ∃ f, fuel = f + 1 := ⟨fuel - 1, by simp at hf; omega⟩
    rw [flatMap_cons_esc, List.append_assoc] at hd
    obtain ⟨l1, h1⟩ := cnw_char c (hw c (by simp)) s k l f str lb sm _ hk hd
    have hd2 : s.inp.iter.drop (k + (escChar c).length) = w.flatMap escChar ++ x :: tail := by
      rw [← List.drop_drop, hd]; simp
    obtain ⟨l2, h2⟩ := ih (fun d hdm => hw d (by simp [hdm])) (k + (escChar c).length) l1 f (str ++ [c]) lb tail
      (by simp at hf ⊢; omega) hd2
    refine ⟨l2, ?_⟩
    rw [h1, h2, flatMap_cons_esc]
    simp [List.append_assoc, Nat.add_assoc]

theorem skipBlank_advL (s : Sc) (l k : Nat) (h : s.inp.kind = .str) :
    skipBlank (advL s k l) = .ok ((), advL s (k + 1) l) := by
  simp [skipBlank, liftI, In.skip, h, advance, modS, Bind.bind, advL, List.drop_drop, Nat.add_assoc]

theorem nextIs_advL (q : Char → Bool) (e : Bool) (s : Sc) (k l : Nat) (hk : s.inp.kind = .str) (c : Char) (t : Str)
    (hd : s.inp.iter.drop k = c :: t) : liftI (In.nextIs q e) (advL s k l) = .ok (q c, advL s k l) := by
  rw [liftI_nextIs_str q e (advL s k l) (by simpa using hk)]
  simp [hd]

/-- **A run of spaces** inside the quotes is collected as pending white space -/
theorem cb_spaces (n : Nat) (s : Sc) (hk : s.inp.kind = .str) : ∀ (k l fuel : Nat) (a : WsAcc) (x : Char) (tail : Str),
    isBlank x = false → isBreak x = false → n + 1 ≤ fuel →
    s.inp.iter.drop k = List.replicate n ' ' ++ x :: tail →
    ∃ l', consumeBlanks fuel a false (advL s k l) =
      .ok (({ a with whitespaces := a.whitespaces ++ List.replicate n ' ' }, false), advL s (k + n) l') := by
  induction n with
  | zero =>
    intro k l fuel a x tail hx1 hx2 hf hd
    obtain ⟨f, rfl⟩ : ∃ f, fuel = f + 1 := ⟨fuel - 1, by omega⟩
    refine ⟨l, ?_⟩
    simp only [List.replicate_zero, List.nil_append] at hd
    conv => lhs; unfold consumeBlanks
    rw [In.nextIsBlank, bind_eq (nextIs_advL _ _ s k l hk x tail hd)]
    simp only [hx1, Bool.false_eq_true, ↓reduceIte]
    rw [In.nextIsBreak, bind_eq (nextIs_advL _ _ s k l hk x tail hd)]
    simp [hx2, Pure.pure]
  | succ n ih =>
    intro k l fuel a x tail hx1 hx2 hf hd
    obtain ⟨f, rfl⟩ : ∃ f, fuel = f + 1 := ⟨fuel - 1, by omega⟩
    have hd1 : s.inp.iter.drop k = ' ' :: (List.replicate n ' ' ++ x :: tail) := by
      rw [hd, List.replicate_succ]; rfl
    have hd2 : s.inp.iter.drop (k + 1) = List.replicate n ' ' ++ x :: tail := by
      rw [← List.drop_drop, hd1]; rfl
    obtain ⟨l2, h2⟩ := ih (k + 1) (max l 1) f { a with whitespaces := a.whitespaces ++ [' '] } x tail hx1 hx2 (by omega) hd2
    refine ⟨l2, ?_⟩
    conv => lhs; unfold consumeBlanks
    rw [In.nextIsBlank, bind_eq (nextIs_advL _ _ s k l hk ' ' _ hd1)]
    simp only [show isBlank ' ' = true by decide, ↓reduceIte, Bool.false_eq_true]
    rw [bind_eq (peek_advL s k l hk)]
    simp only [hd1, List.headD_cons]
    rw [bind_eq (skipBlank_advL s l k hk), bind_eq (lookahead_advL s (k + 1) l 1 hk), h2]
    simp [List.replicate_succ, Nat.add_assoc, Nat.add_comm 1 n]

/-- what an escaped character starts with is neither blank, break nor NUL -/
theorem escChar_head (c : Char) (hsp : c ≠ ' ') : ∃ x t, escChar c = x :: t ∧ isBlank x = false ∧ isBreak x = false ∧ isZ x = false := by
  unfold escChar
  repeat' (first
    | exact ⟨_, _, rfl, by decide, by decide, by decide⟩
    | split)
  rename_i h1 h2 h3 h4 h5 h6 h7 h8
  refine ⟨c, [], rfl, ?_, ?_, ?_⟩
  · simp [isBlank, hsp, h4]
  · simp [isBreak, h5, h7]
  · simp only [not_or, Nat.not_lt] at h8
    have hz : c ≠ '\x00' := by intro h; subst h; exact absurd h8.1 (by decide)
    simp [isZ, hz]

theorem remaining_ge (s : Sc) (k l : Nat) : (s.inp.iter.drop k).length ≤ (advL s k l).inp.remaining := by
  simp [In.remaining, advL]

/-- the preamble of one iteration of the outer loop: away from column 0, not at the end of input,
    and not left of the current indentation, it goes on to the inner loop -/
theorem fsl_unfold (sm : Marker) (fuel : Nat) (str : Str) (a : WsAcc) (s : Sc) (k l : Nat) (hk : s.inp.kind = .str)
    (hk1 : 1 ≤ k) (hind : s.indent ≤ (s.mark.col + k : Nat)) (x : Char) (t : Str)
    (hd : s.inp.iter.drop k = x :: t) (hz : isZ x = false) :
    flowScalarLoop false sm (fuel + 1) str a (advL s k l) =
      (do
        let (str, lb) ← consumeNonWs false sm ((advL s k (max l 4)).inp.remaining + 2) str false
        let c ← lookCh
        if (c == '\'' && false) || (c == '"' && !false) then pure str
        else do
          let s ← getS
          let (a, lb) ← consumeBlanks (s.inp.remaining + 2) a lb
          if lb then
            if a.leadingBreak.isEmpty then
              flowScalarLoop false sm fuel (str ++ a.leadingBreak ++ a.trailingBreaks)
                { a with trailingBreaks := [], leadingBreak := [] }
            else if a.trailingBreaks.isEmpty then
              flowScalarLoop false sm fuel (str ++ [' ']) { a with leadingBreak := [] }
            else
              flowScalarLoop false sm fuel (str ++ a.trailingBreaks)
                { a with trailingBreaks := [], leadingBreak := [] }
          else flowScalarLoop false sm fuel (str ++ a.whitespaces) { a with whitespaces := [] })
        (advL s k (max (max l 4) 2)) := by
  conv => lhs; unfold flowScalarLoop
  rw [bind_eq (lookahead_advL s k l 4 hk)]
  simp only [Bind.bind, getS]
  have hcol : ((advL s k (max l 4)).mark.col == 0) = false := by simp; omega
  simp only [hcol, Bool.false_eq_true, ↓reduceIte, Pure.pure]
  have hnz : liftI In.nextIsZ (advL s k (max l 4)) = .ok (false, advL s k (max l 4)) := by
    rw [In.nextIsZ, nextIs_advL _ _ s k _ hk x t hd, hz]
  simp only [hnz]
  have hi : ¬ (((advL s k (max l 4)).mark.col : Int) < (advL s k (max l 4)).indent) := by
    simp only [advL_col, advL_indent]; omega
  simp only [hi, ↓reduceIte, Bool.false_eq_true]
  rw [lookahead_advL s k (max l 4) 2 hk]

theorem takeWhile_ne_space (t : Str) : ∀ c ∈ t.takeWhile (fun c => c != ' '), c ≠ ' ' := by
  induction t with
  | nil => intro c hc; simp at hc
  | cons d r ih =>
    intro c hc
    simp only [List.takeWhile] at hc
    by_cases hd : d = ' '
    · subst hd; simp at hc
    · have : (d != ' ') = true := by simpa using hd
      simp only [this, List.mem_cons] at hc
      rcases hc with rfl | hc
      · exact hd
      · exact ih c hc

theorem escChar_space : escChar ' ' = [' '] := by decide

theorem len_le_flatMap (t : Str) : t.length ≤ (t.flatMap escChar).length := by
  induction t with
  | nil => simp
  | cons c t ih =>
    rw [flatMap_cons_esc]; simp only [List.length_cons, List.length_append]
    have : 1 ≤ (escChar c).length := by
      unfold escChar; repeat' (first | (simp; done) | split)
    omega

theorem replicate_flatMap (n : Nat) : (List.replicate n ' ').flatMap escChar = List.replicate n ' ' := by
  induction n with
  | zero => rfl
  | succ m ih => rw [List.replicate_succ, flatMap_cons_esc, ih, escChar_space]; rfl

theorem dropWhile_head_space (t : Str) : t.dropWhile (fun c => c != ' ') = [] ∨
    ∃ r, t.dropWhile (fun c => c != ' ') = ' ' :: r := by
  induction t with
  | nil => left; rfl
  | cons c r ih =>
    simp only [List.dropWhile]
    by_cases hc : c = ' '
    · subst hc; right; exact ⟨r, by simp⟩
    · have : (c != ' ') = true := by simpa using hc
      simp only [this]; exact ih

theorem spaces_split (r : Str) : r = List.replicate (r.takeWhile (fun c => c == ' ')).length ' ' ++ r.dropWhile (fun c => c == ' ') := by
  induction r with
  | nil => rfl
  | cons c r ih =>
    simp only [List.takeWhile, List.dropWhile]
    by_cases hc : c = ' '
    · subst hc
      simp only [beq_self_eq_true, List.length_cons, List.replicate_succ, List.cons_append]
      rw [← ih]
    · have : (c == ' ') = false := by simpa using hc
      simp [this]

theorem dropWhile_space_head (r : Str) : ∀ c t, r.dropWhile (fun c => c == ' ') = c :: t → c ≠ ' ' := by
  induction r with
  | nil => intro c t h; simp at h
  | cons d r ih =>
    intro c t h
    simp only [List.dropWhile] at h
    by_cases hd : d = ' '
    · subst hd; simp only [beq_self_eq_true] at h; exact ih c t h
    · have : (d == ' ') = false := by simpa using hd
      simp only [this, List.cons.injEq] at h
      rw [← h.1]; exact hd

/-- **The whole body of a double-quoted scalar.** For every string `t`, the outer loop of the flow
    scalar scanner, started inside the quotes in front of `t` as the emitter escaped it, returns
    `t` appended to what it had, and stops at the closing quote. -/
theorem fsl_decode (sm : Marker) (s : Sc) (hk : s.inp.kind = .str) (rest : Str) (N : Nat) :
    ∀ (t : Str), t.length ≤ N → ∀ (fuel k l : Nat) (str : Str), t.length + 2 ≤ fuel → 1 ≤ k →
      s.indent ≤ (s.mark.col + k : Nat) →
      s.inp.iter.drop k = t.flatMap escChar ++ '"' :: rest →
      ∃ l', flowScalarLoop false sm fuel str ⟨[], [], []⟩ (advL s k l) =
        .ok (str ++ t, advL s (k + (t.flatMap escChar).length) l') := by
  induction N with
  | zero =>
    intro t ht fuel k l str hf hk1 hind hd
    have : t = [] := by cases t <;> simp_all
    subst this
    obtain ⟨f, rfl⟩ : ∃ f, fuel = f + 1 := ⟨fuel - 1, by omega⟩
    simp only [List.flatMap_nil, List.nil_append] at hd
    rw [fsl_unfold sm f str _ s k l hk hk1 hind '"' rest hd (by decide)]
    obtain ⟨l1, h1⟩ := cnw_word [] (by simp) '"' (Or.inr rfl) sm s hk k (max (max l 4) 2)
      ((advL s k (max l 4)).inp.remaining + 2) str false rest (by simp) (by simpa using hd)
    simp only [List.flatMap_nil, List.length_nil, Nat.add_zero, List.append_nil] at h1
    rw [bind_eq h1]
    simp only
    rw [bind_eq (lookCh_advL s k l1 hk)]
    refine ⟨max l1 1, ?_⟩
    simp [hd, Pure.pure]
  | succ N ih =>
    intro t ht fuel k l str hf hk1 hind hd
    obtain ⟨f, rfl⟩ : ∃ f, fuel = f + 1 := ⟨fuel - 1, by omega⟩
    -- the leading word and what follows it
    let w := t.takeWhile (fun c => c != ' ')
    let r := t.dropWhile (fun c => c != ' ')
    have htw : t = w ++ r := (List.takeWhile_append_dropWhile).symm
    have hw := takeWhile_ne_space t
    -- first character in front of the scanner (not NUL)
    have hhead : ∃ x tl, s.inp.iter.drop k = x :: tl ∧ isZ x = false := by
      cases t with
      | nil => exact ⟨'"', rest, by simpa using hd, by decide⟩
      | cons c t' =>
        by_cases hc : c = ' '
        · subst hc; exact ⟨' ', _, by rw [hd, flatMap_cons_esc, escChar_space]; rfl, by decide⟩
        · obtain ⟨x, tx, hx, _, _, hz⟩ := escChar_head c hc
          exact ⟨x, _, by rw [hd, flatMap_cons_esc, hx]; rfl, hz⟩
    obtain ⟨x0, tl0, hd0, hz0⟩ := hhead
    rw [fsl_unfold sm f str _ s k l hk hk1 hind x0 tl0 hd0 hz0]
    have hlenw : w.length ≤ t.length := by rw [htw]; simp
    have hrem : t.length + 1 ≤ (advL s k (max l 4)).inp.remaining := by
      have h1 := remaining_ge s k (max l 4)
      rw [hd, List.length_append, List.length_cons] at h1
      have hle := len_le_flatMap t
      omega
    rcases dropWhile_head_space t with hr | ⟨r', hr⟩
    · -- no space left: the word runs up to the closing quote
      have hww : w = t := by
        have : t = w := by rw [htw]; show w ++ r = w; rw [show r = [] from hr]; simp
        exact this.symm
      have hwt : ∀ c ∈ t, c ≠ ' ' := by rw [← hww]; exact hw
      obtain ⟨l1, h1⟩ := cnw_word t hwt '"' (Or.inr rfl) sm s hk k (max (max l 4) 2)
        ((advL s k (max l 4)).inp.remaining + 2) str false rest (by omega) hd
      rw [bind_eq h1]
      simp only
      rw [bind_eq (lookCh_advL s _ l1 hk)]
      have hq : s.inp.iter.drop (k + (t.flatMap escChar).length) = '"' :: rest := by
        rw [← List.drop_drop, hd]; simp
      refine ⟨max l1 1, ?_⟩
      rw [hq]
      simp [Pure.pure]
    · -- a run of spaces follows the word
      let n := (r.takeWhile (fun c => c == ' ')).length
      let t' := r.dropWhile (fun c => c == ' ')
      have hrs : r = List.replicate n ' ' ++ t' := spaces_split r
      have hn1 : 1 ≤ n := by
        show 1 ≤ (r.takeWhile (fun c => c == ' ')).length
        rw [show r = ' ' :: r' from hr]; simp
      have htlen : t.length = w.length + n + t'.length := by
        rw [htw, hrs]; simp; omega
      have hdw : s.inp.iter.drop k = w.flatMap escChar ++ ' ' :: (List.replicate (n - 1) ' ' ++ (t'.flatMap escChar ++ '"' :: rest)) := by
        rw [hd]
        conv => lhs; rw [htw, hrs]
        simp only [List.flatMap_append, List.append_assoc]
        congr 1
        rw [replicate_flatMap]
        obtain ⟨m, hm⟩ : ∃ m, n = m + 1 := ⟨n - 1, by omega⟩
        rw [hm]; simp [List.replicate_succ]
      obtain ⟨l1, h1⟩ := cnw_word w hw ' ' (Or.inl rfl) sm s hk k (max (max l 4) 2)
        ((advL s k (max l 4)).inp.remaining + 2) str false _ (by omega) hdw
      rw [bind_eq h1]
      simp only
      rw [bind_eq (lookCh_advL s _ l1 hk)]
      have hsp : s.inp.iter.drop (k + (w.flatMap escChar).length) =
          List.replicate n ' ' ++ (t'.flatMap escChar ++ '"' :: rest) := by
        rw [← List.drop_drop, hdw]
        obtain ⟨m, hm⟩ : ∃ m, n = m + 1 := ⟨n - 1, by omega⟩
        simp [hm, List.replicate_succ]
      have hsp1 : (s.inp.iter.drop (k + (w.flatMap escChar).length)).headD '\x00' = ' ' := by
        rw [hsp]; obtain ⟨m, hm⟩ : ∃ m, n = m + 1 := ⟨n - 1, by omega⟩; simp [hm, List.replicate_succ]
      simp only [hsp1, show ((' ' : Char) == '\'') = false by decide, show ((' ' : Char) == '"') = false by decide,
        Bool.false_and, Bool.false_or, Bool.false_eq_true, ↓reduceIte, Bool.and_true, Bind.bind, getS]
      -- the character after the spaces
      have hx : ∃ x tx, t'.flatMap escChar ++ '"' :: rest = x :: tx ∧ isBlank x = false ∧ isBreak x = false := by
        cases ht' : t' with
        | nil => exact ⟨'"', rest, rfl, by decide, by decide⟩
        | cons c t'' =>
          have hc : c ≠ ' ' := dropWhile_space_head r c t'' ht'
          obtain ⟨x, tx, hxe, hb1, hb2, _⟩ := escChar_head c hc
          exact ⟨x, _, by rw [flatMap_cons_esc, hxe]; rfl, hb1, hb2⟩
      obtain ⟨x, tx, hxe, hxb, hxk⟩ := hx
      have hrem2 : n + 1 ≤ (advL s (k + (w.flatMap escChar).length) (max l1 1)).inp.remaining + 2 := by
        have h9 := remaining_ge s (k + (w.flatMap escChar).length) (max l1 1)
        rw [hsp, List.length_append, List.length_replicate] at h9; omega
      obtain ⟨l2, h2⟩ := cb_spaces n s hk (k + (w.flatMap escChar).length) (max l1 1)
        ((advL s (k + (w.flatMap escChar).length) (max l1 1)).inp.remaining + 2) ⟨[], [], []⟩ x tx hxb hxk hrem2
        (by rw [hsp, hxe])
      simp only [h2, List.nil_append, Bool.false_eq_true, ↓reduceIte]
      -- the rest of the string
      have hd3 : s.inp.iter.drop (k + (w.flatMap escChar).length + n) = t'.flatMap escChar ++ '"' :: rest := by
        rw [← List.drop_drop, hsp]; simp
      obtain ⟨l3, h3⟩ := ih t' (by omega) f (k + (w.flatMap escChar).length + n) l2
        (str ++ w ++ List.replicate n ' ') (by omega) (by omega) (by omega) hd3
      refine ⟨l3, ?_⟩
      rw [h3]
      have e1 : str ++ w ++ List.replicate n ' ' ++ t' = str ++ t := by
        conv => rhs; rw [htw, hrs]
        simp [List.append_assoc]
      have e2 : k + (w.flatMap escChar).length + n + (t'.flatMap escChar).length = k + (t.flatMap escChar).length := by
        conv => rhs; rw [htw, hrs]
        simp only [List.flatMap_append, List.length_append, replicate_flatMap, List.length_replicate]
        omega
      rw [e1, e2]

/-- what `scan_flow_scalar` does after the loop: skip the closing quote, skip blanks and a comment,
    check what follows, build the token -/
def dqTail (startMark : Marker) (str : Str) : S Token := do
  skipNonBlank
  let _ ← skipWsToEol .yes
  let c ← peek
  let s ← getS
  let ok :=
    ((c == ',' || c == '}' || c == ']') && s.flowLevel > 0) || isBreakz c ||
    (c == ':' && s.flowLevel == 0 && startMark.line == s.mark.line) || (c == ':' && s.flowLevel > 0)
  if !ok then err s.mark "invalid trailing content after double-quoted scalar"
  else pure ⟨⟨startMark, s.mark⟩, .scalar .doubleQuoted str⟩

theorem skipNonBlank_str0 (s : Sc) (h : s.inp.kind = .str) :
    skipNonBlank s = .ok ((), advL s 1 s.inp.la) := by
  simp [skipNonBlank, liftI, In.skip, h, advance, modS, Bind.bind, advL]

/-- **`scan_flow_scalar` on what `escape_str` wrote.** In front of `"` + escaped `t` + `"` + anything,
    the double-quoted scanner reaches its trailing-content check with exactly `t` as the value. -/
theorem scanFlowScalar_escaped (s : Sc) (hk : s.inp.kind = .str) (t rest : Str)
    (hiter : s.inp.iter = '"' :: (t.flatMap escChar ++ '"' :: rest))
    (hind : s.indent ≤ (s.mark.col + 1 : Nat)) :
    ∃ l', scanFlowScalar false s = dqTail s.mark t (advL s (1 + (t.flatMap escChar).length) l') := by
  have hd : s.inp.iter.drop 1 = t.flatMap escChar ++ '"' :: rest := by rw [hiter]; rfl
  have hrem : t.length + 2 ≤ (advL s 1 s.inp.la).inp.remaining + 2 := by
    have h1 := remaining_ge s 1 s.inp.la
    rw [hd, List.length_append, List.length_cons] at h1
    have := len_le_flatMap t
    omega
  obtain ⟨l', h⟩ := fsl_decode s.mark s hk rest t.length t (Nat.le_refl _)
    ((advL s 1 s.inp.la).inp.remaining + 2) 1 s.inp.la [] hrem (Nat.le_refl _) hind hd
  refine ⟨l', ?_⟩
  unfold scanFlowScalar dqTail
  simp only [Bind.bind, getMark, getS, skipNonBlank_str0 s hk, h, List.nil_append]
  rfl

theorem In.skipWsToEol_yes_str (i : In) (hk : i.kind = .str) :
    ∃ n v i', In.skipWsToEol .yes i = .ok ((n, v), i') ∧ i'.kind = .str := by
  unfold In.skipWsToEol
  simp only [hk]
  generalize In.strSkipBlanks (SkipTabs.yes == SkipTabs.yes) i.iter 0 false false = q
  obtain ⟨n, tab, ws, r⟩ := q
  simp only
  split
  · split
    · exact ⟨_, _, _, rfl, hk⟩
    · exact ⟨_, _, _, rfl, rfl⟩
  · exact ⟨_, _, _, rfl, rfl⟩

/-- on a string input `skip_ws_to_eol(SkipTabs::Yes)` does not panic and keeps the input a string -/
theorem skipWsToEol_yes_str (s : Sc) (hk : s.inp.kind = .str) :
    match skipWsToEol .yes s with
    | .ok (_, s') => s'.inp.kind = .str ∧ s'.flowLevel = s.flowLevel
    | .err _ => True
    | .panic _ => False := by
  obtain ⟨n, v, i', h, hk'⟩ := In.skipWsToEol_yes_str s.inp hk
  unfold skipWsToEol
  simp only [Bind.bind, liftI, h, advance, modS]
  cases v with
  | ok v => simp [Pure.pure, hk']
  | error m => simp [getMark, err, throwE]

/-- the value of the token, whenever a token is produced; and the scan cannot panic -/
theorem scanFlowScalar_escaped_value (s : Sc) (hk : s.inp.kind = .str) (t rest : Str)
    (hiter : s.inp.iter = '"' :: (t.flatMap escChar ++ '"' :: rest))
    (hind : s.indent ≤ (s.mark.col + 1 : Nat)) :
    match scanFlowScalar false s with
    | .ok (tok, _) => tok.ty = .scalar .doubleQuoted t ∧ tok.span.start = s.mark
    | .err _ => True
    | .panic _ => False := by
  obtain ⟨l', h⟩ := scanFlowScalar_escaped s hk t rest hiter hind
  rw [h]
  have hk1 : (advL s (1 + (t.flatMap escChar).length) l').inp.kind = .str := by simpa using hk
  generalize advL s (1 + (t.flatMap escChar).length) l' = s1 at hk1
  unfold dqTail
  rw [bind_eq (skipNonBlank_str0 s1 hk1)]
  have hk2 : (advL s1 1 s1.inp.la).inp.kind = .str := by simpa using hk1
  have h2 := skipWsToEol_yes_str _ hk2
  generalize advL s1 1 s1.inp.la = s2 at h2
  simp only [Bind.bind]
  cases h3 : skipWsToEol .yes s2 with
  | panic x => simp [h3] at h2
  | err e => simp
  | ok r =>
    obtain ⟨v, s3⟩ := r
    simp only [h3] at h2
    simp only [peek_str s3 h2.1, getS]
    by_cases hc : (!(((s3.inp.iter.headD '\x00' == ',' || s3.inp.iter.headD '\x00' == '}' || s3.inp.iter.headD '\x00' == ']') && decide (s3.flowLevel > 0)) || isBreakz (s3.inp.iter.headD '\x00') || (s3.inp.iter.headD '\x00' == ':' && s3.flowLevel == 0 && s.mark.line == s3.mark.line) || (s3.inp.iter.headD '\x00' == ':' && decide (s3.flowLevel > 0)))) = true
    · rw [if_pos hc]; simp [err, throwE]
    · rw [if_neg hc]; simp [Pure.pure]

end SaphyrModel.Sc
