import SaphyrModel.Proofs.BlockLitBreaks
/-! C05 / C14, token level: a whole literal block scalar — header, the break that ends the header line,
auto-detected indentation, content lines, chomping — is scanned to the token the specification prescribes, for
every list of content lines and every spelling of every line break (string input). -/
set_option linter.unusedSimpArgs false
namespace SaphyrModel.C05T
open SaphyrModel SaphyrModel.Sc SaphyrModel.C10 SaphyrModel.C05 SaphyrModel.C14L

/-- where the scanner stands: string input, remaining text, line, column, parent indentation -/
structure At (u : Sc) (it : Str) (line col : Nat) (ind : Int) (N : Nat) : Prop where
  kind : u.inp.kind = .str
  iter : u.inp.iter = it
  line : u.mark.line = line
  col : u.mark.col = col
  indent : u.indent = ind
  /-- the index counts the characters consumed: index + what remains = the length of the whole text -/
  off : u.mark.index + it.length = N

/-- `m` started in `u` either stops at a panic site (on a string input: only `fuel`) or returns `a` in a
    state satisfying `P` -/
def Ev {α : Type} (m : S α) (u : Sc) (a : α) (P : Sc → Prop) : Prop :=
  (∃ p, m u = .panic p) ∨ ∃ u', m u = .ok (a, u') ∧ P u'

theorem Ev.ok {α : Type} {m : S α} {u u' : Sc} {a : α} {P : Sc → Prop} (h : m u = .ok (a, u')) (hp : P u') : Ev m u a P :=
  Or.inr ⟨u', h, hp⟩

theorem Ev.bind {α β : Type} {m : S α} {f : α → S β} {u : Sc} {a : α} {b : β} {P Q : Sc → Prop}
    (h1 : Ev m u a P) (h2 : ∀ u', P u' → Ev (f a) u' b Q) : Ev (m >>= f) u b Q := by
  rcases h1 with ⟨p, hp⟩ | ⟨u', hok, hP⟩
  · left; exact ⟨p, bind_panic' hp⟩
  · rcases h2 u' hP with ⟨p, hp⟩ | ⟨u'', hok2, hQ⟩
    · left; exact ⟨p, by rw [bind_ok' hok]; exact hp⟩
    · right; exact ⟨u'', by rw [bind_ok' hok]; exact hok2, hQ⟩

theorem Ev.mono {α : Type} {m : S α} {u : Sc} {a : α} {P Q : Sc → Prop} (h : Ev m u a P) (hpq : ∀ u', P u' → Q u') :
    Ev m u a Q := by
  rcases h with h | ⟨u', hok, hP⟩
  · exact Or.inl h
  · exact Or.inr ⟨u', hok, hpq u' hP⟩

theorem Ev.pure {α : Type} (a : α) (u : Sc) {P : Sc → Prop} (hp : P u) : Ev (Pure.pure a : S α) u a P :=
  Ev.ok rfl hp

theorem Ev.getS (u : Sc) {P : Sc → Prop} (hp : P u) : Ev (getS : S Sc) u u P := Ev.ok rfl hp

-- primitives on a string input ---------------------------------------------------------------------------

theorem ev_getS {u : Sc} {it : Str} {L C : Nat} {I : Int} {N : Nat} (h : At u it L C I N) :
    Ev (getS : S Sc) u u (fun u' => At u' it L C I N) := Ev.ok rfl h

theorem ev_lookCh {u : Sc} {it : Str} {L C : Nat} {I : Int} {N : Nat} (h : At u it L C I N) :
    Ev lookCh u (it.headD '\x00') (fun u' => At u' it L C I N) := by
  apply Ev.ok (u' := { u with inp := { u.inp with la := max u.inp.la 1 } })
  · simp [Sc.lookCh, Sc.liftI, In.lookCh, In.lookahead, In.peek, h.kind, Bind.bind, h.iter]
  · exact ⟨h.kind, h.iter, h.line, h.col, h.indent, h.off⟩

theorem ev_lookahead (n : Nat) {u : Sc} {it : Str} {L C : Nat} {I : Int} {N : Nat} (h : At u it L C I N) :
    Ev (Sc.lookahead n) u () (fun u' => At u' it L C I N) :=
  Ev.ok (lookahead_str_eval n u h.kind) ⟨h.kind, h.iter, h.line, h.col, h.indent, h.off⟩

theorem ev_peek {u : Sc} {it : Str} {L C : Nat} {I : Int} {N : Nat} (h : At u it L C I N) :
    Ev Sc.peek u (it.headD '\x00') (fun u' => At u' it L C I N) := by
  refine Ev.ok (u' := u) ?_ h
  rw [peek_str_eval u h.kind, h.iter]

/-- what `next_is_*` answers on the text `it` -/
def ans (q : Char → Bool) (e : Bool) : Str → Bool
  | [] => e
  | c :: _ => q c

theorem ev_nextIs (q : Char → Bool) (e : Bool) {u : Sc} {it : Str} {L C : Nat} {I : Int} {N : Nat} (h : At u it L C I N) :
    Ev (Sc.liftI (In.nextIs q e)) u (ans q e it) (fun u' => At u' it L C I N) := by
  refine Ev.ok (u' := u) ?_ h
  rw [nextIs_str_eval q e u h.kind, h.iter]
  cases it <;> rfl

theorem ev_skipBlank {u : Sc} {c : Char} {it : Str} {L C : Nat} {I : Int} {N : Nat} (h : At u (c :: it) L C I N) :
    Ev skipBlank u () (fun u' => At u' it L (C + 1) I N) := by
  refine Ev.ok (skipBlank_str_eval u h.kind) ⟨h.kind, ?_, h.line, ?_, h.indent, ?_⟩
  · show u.inp.iter.tail = it
    rw [h.iter]; rfl
  · show u.mark.col + 1 = C + 1
    rw [h.col]
  · show u.mark.index + 1 + it.length = N
    have := h.off; simp only [List.length_cons] at this; omega

theorem ev_skipNonBlank {u : Sc} {c : Char} {it : Str} {L C : Nat} {I : Int} {N : Nat} (h : At u (c :: it) L C I N) :
    Ev skipNonBlank u () (fun u' => At u' it L (C + 1) I N) := by
  apply Ev.ok (u' := { (advS u 1 { u.inp with iter := it }) with leadingWhitespace := false })
  · simp [skipNonBlank, Sc.liftI, In.skip, h.kind, h.iter, Bind.bind, advance, modS, advS]
  · refine ⟨h.kind, rfl, h.line, by show u.mark.col + 1 = C + 1; rw [h.col], h.indent, ?_⟩
    show u.mark.index + 1 + it.length = N
    have := h.off; simp only [List.length_cons] at this; omega

theorem ev_readBreak (acc : Str) (b : Brk) {u : Sc} {it : Str} {L C : Nat} {I : Int} {N : Nat} (h : At u (b.txt ++ it) L C I N)
    (hcr : it.headD '\x00' ≠ '\n') :
    Ev (readBreak acc) u (acc ++ ['\n']) (fun u' => At u' it (L + 1) 0 I N) := by
  refine Ev.ok (readBreak_brk acc u h.kind b it h.iter hcr) ⟨h.kind, rfl, ?_, rfl, h.indent, ?_⟩
  · show u.mark.line + 1 = L + 1
    rw [h.line]
  · show u.mark.index + b.txt.length + it.length = N
    have := h.off; simp only [List.length_append] at this; omega

-- loops ---------------------------------------------------------------------------------------------------

theorem ev_skipSpaces : ∀ (fuel k : Nat) (u : Sc) (rest : Str) (L C : Nat) (I : Int) (N : Nat),
    At u (List.replicate k ' ' ++ rest) L C I N → rest.headD '\x00' ≠ ' ' →
    Ev (skipSpaces fuel) u () (fun u' => At u' rest L (C + k) I N) := by
  intro fuel
  induction fuel with
  | zero => intro k u rest L C I N _ _; left; exact ⟨_, rfl⟩
  | succ f ih =>
    intro k u rest L C I N h hr
    unfold skipSpaces
    apply Ev.bind (ev_lookCh h)
    intro u1 h1
    cases k with
    | zero =>
      simp only [List.replicate_zero, List.nil_append] at h1 ⊢
      have : (rest.headD '\x00' == ' ') = false := by simpa using hr
      simp only [this, Bool.false_eq_true, ↓reduceIte]
      exact Ev.pure () u1 h1
    | succ k =>
      simp only [List.replicate_succ, List.cons_append, List.headD_cons, beq_self_eq_true, ↓reduceIte] at h1 ⊢
      apply Ev.bind (ev_skipBlank h1)
      intro u2 h2
      have := ih k u2 rest L (C + 1) I N h2 hr
      rw [show C + (k + 1) = C + 1 + k by omega]
      exact this

theorem Ev.pure' {α : Type} {a a' : α} (u : Sc) {P : Sc → Prop} (he : a = a') (hp : P u) : Ev (Pure.pure a : S α) u a' P := by
  subst he; exact Ev.pure a u hp

/-- indentation auto-detection in front of a first content line indented by `ind` spaces -/
theorem ev_firstLineIndent (ind : Nat) (hind : ind ≠ 0) (u : Sc) (rest : Str) (L : Nat) (I : Int) (N : Nat)
    (h : At u (List.replicate ind ' ' ++ rest) L 0 I N) (hr1 : rest.headD '\x00' ≠ ' ')
    (hr2 : isBreak (rest.headD '\x00') = false) (hI : (I + 1).toNat ≤ ind) :
    Ev (skipBlockScalarFirstLineIndent []) u (ind, []) (fun u' => At u' rest L ind I N) := by
  unfold skipBlockScalarFirstLineIndent
  apply Ev.bind (ev_getS h)
  intro u0 h0
  have hgo : Ev (skipBlockScalarFirstLineIndentGo (u.inp.remaining + 2) 0 []) u0 (ind, []) (fun u' => At u' rest L ind I N) := by
    rw [show u.inp.remaining + 2 = (u.inp.remaining + 1) + 1 by omega]
    unfold skipBlockScalarFirstLineIndentGo
    apply Ev.bind (ev_getS h0)
    intro u1 h1
    apply Ev.bind (ev_skipSpaces _ ind u1 rest L 0 I N h1 hr1)
    intro u2 h2
    apply Ev.bind (ev_getS h2)
    intro u3 h3
    apply Ev.bind (ev_nextIs isBreak false h3)
    intro u4 h4
    have hb : ans isBreak false rest = false := by
      cases rest with
      | nil => rfl
      | cons c r => simpa [ans] using hr2
    simp only [hb, Bool.false_eq_true, ↓reduceIte]
    have hc : u2.mark.col = ind := by rw [h2.col]; omega
    refine Ev.pure' u4 ?_ (by rw [show ind = 0 + ind by omega]; exact h4)
    simp only [hc]
    have : ind > 0 := by omega
    simp [this]
  apply Ev.bind hgo
  intro u5 h5
  apply Ev.bind (ev_getS h5)
  intro u6 h6
  refine Ev.pure' u6 ?_ h6
  rw [h5.indent]
  have h1 : max ind (I + 1).toNat = ind := by omega
  simp only [h1]
  split
  · have : max ind 1 = ind := by omega
    rw [this]
  · rfl

-- results that depend on the final state ----------------------------------------------------------------------

def EvR {α : Type} (m : S α) (u : Sc) (R : α → Sc → Prop) : Prop :=
  (∃ p, m u = .panic p) ∨ ∃ a u', m u = .ok (a, u') ∧ R a u'

theorem EvR.bindEv {α β : Type} {m : S α} {f : α → S β} {u : Sc} {a : α} {P : Sc → Prop} {R : β → Sc → Prop}
    (h1 : Ev m u a P) (h2 : ∀ u', P u' → EvR (f a) u' R) : EvR (m >>= f) u R := by
  rcases h1 with ⟨p, hp⟩ | ⟨u', hok, hP⟩
  · left; exact ⟨p, bind_panic' hp⟩
  · rcases h2 u' hP with ⟨p, hp⟩ | ⟨b, u'', hok2, hQ⟩
    · left; exact ⟨p, by rw [bind_ok' hok]; exact hp⟩
    · right; exact ⟨b, u'', by rw [bind_ok' hok]; exact hok2, hQ⟩

/-- what chomping leaves of content that ends with exactly one line break -/
def chomped (ch : Chomping) (content : Str) : Str :=
  match ch with | .strip => content | _ => content ++ ['\n']

/-- where the scanner stands, parent indentation aside -/
def Pos (u : Sc) (it : Str) (line col : Nat) (N : Nat) : Prop :=
  u.inp.kind = .str ∧ u.inp.iter = it ∧ u.mark.line = line ∧ u.mark.col = col ∧ u.mark.index + it.length = N

/-- from the first content line on: the token of a literal block scalar -/
theorem ev_blockContent (ch : Chomping) (ind : Nat) (hind : ind ≠ 0) (tail : Str) (ht1 : tail.headD '\x00' ≠ ' ')
    (ht2 : isBreak (tail.headD '\x00') = false) (ls : List (Str × Brk)) (l : Str) (b : Brk)
    (hl : GoodLine l) (hls : ∀ p ∈ ls, GoodLine p.1) (u : Sc) (L : Nat) (I : Int) (N : Nat)
    (h : At u (l ++ (b.txt ++ restLinesB ind ls tail)) L ind I N) :
    EvR (blockContent true ch ind [] u) u (fun tok u' =>
      tok = ⟨⟨u.mark, u'.mark⟩, .scalar .literal (chomped ch (joinB l ls))⟩ ∧ Pos u' tail (L + ls.length + 1) 0 N) := by
  unfold blockContent
  have hm : blockMarkerCheck ind u = (Pure.pure true : S Bool) := by
    unfold blockMarkerCheck
    simp [h.col]
  rw [hm]
  apply EvR.bindEv (Ev.pure true u (P := fun u' => At u' (l ++ (b.txt ++ restLinesB ind ls tail)) L ind I N) h)
  intro u1 h1
  simp only [Bool.not_true, Bool.false_eq_true, ↓reduceIte]
  rcases literal_lines_any_break ind hind tail ht1 ht2 ls l b ⟨[], [], [], false⟩ u1 (u.inp.remaining + 2) hl hls
      h1.kind h1.col h1.iter with ⟨p, hp⟩ | ⟨u2, bl, hok, hk2, hi2, hc2, hl2, hx2⟩
  · left; exact ⟨p, bind_panic' hp⟩
  · right
    refine ⟨_, u2, ?_, rfl, hk2, hi2, ?_, hc2, ?_⟩
    · rw [bind_ok' hok]
      show (getS >>= fun s2 => blockFinish ch ind _ s2 >>= fun str => Pure.pure _) u2 = _
      rw [bind_ok' (show (getS : S Sc) u2 = .ok (u2, u2) from rfl)]
      simp only [List.append_nil, List.nil_append]
      rw [bind_ok' (literal_chomping ch ind (joinB l ls) bl u2 hk2 hc2)]
      cases ch <;> rfl
    · rw [hl2, h1.line]
    · rw [hx2, h1.iter]; exact h1.off

theorem EvR.bind {α β : Type} {m : S α} {f : α → S β} {u : Sc} {R : α → Sc → Prop} {Q : β → Sc → Prop}
    (h1 : EvR m u R) (h2 : ∀ a u', R a u' → EvR (f a) u' Q) : EvR (m >>= f) u Q := by
  rcases h1 with ⟨p, hp⟩ | ⟨a, u', hok, hP⟩
  · left; exact ⟨p, bind_panic' hp⟩
  · rcases h2 a u' hP with ⟨p, hp⟩ | ⟨b, u'', hok2, hQ⟩
    · left; exact ⟨p, by rw [bind_ok' hok]; exact hp⟩
    · right; exact ⟨b, u'', by rw [bind_ok' hok]; exact hok2, hQ⟩

theorem EvR.mono {α : Type} {m : S α} {u : Sc} {R Q : α → Sc → Prop} (h : EvR m u R) (hpq : ∀ a u', R a u' → Q a u') :
    EvR m u Q := by
  rcases h with h | ⟨a, u', hok, hP⟩
  · exact Or.inl h
  · exact Or.inr ⟨a, u', hok, hpq a u' hP⟩

theorem EvR.getS_bind {β : Type} {f : Sc → S β} {u : Sc} {R : β → Sc → Prop} (h : EvR (f u) u R) :
    EvR (getS >>= f) u R := by
  rcases h with ⟨p, hp⟩ | ⟨b, u', hok, hR⟩
  · left; exact ⟨p, by rw [bind_ok' (show (getS : S Sc) u = .ok (u, u) from rfl)]; exact hp⟩
  · right; exact ⟨b, u', by rw [bind_ok' (show (getS : S Sc) u = .ok (u, u) from rfl)]; exact hok, hR⟩

/-- what the token of the scalar must be: literal style, the chomped lines, from line `L`, column `ind`
    to column 0 of line `L'` -/
def IsTok (lit : Bool) (tok : Token) (text : Str) (L ind L' : Nat) (startRest stopRest N : Nat) : Prop :=
  tok.ty = .scalar (if lit then ScalarStyle.literal else ScalarStyle.folded) text ∧ tok.span.start.line = L ∧ tok.span.start.col = ind ∧
  tok.span.stop.line = L' ∧ tok.span.stop.col = 0 ∧
  tok.span.start.index + startRest = N ∧ tok.span.stop.index + stopRest = N

abbrev IsLit := IsTok true

/-- what the content part must deliver: the token from the first content line on -/
def ContentOk (lit : Bool) (ch : Chomping) (ind : Nat) (text : Str) (X tail : Str) (k : Nat) (N : Nat) : Prop :=
  ∀ (u4 : Sc) (L : Nat) (I : Int), At u4 X L ind I N →
    EvR (blockContent lit ch ind [] u4) u4 (fun tok u' =>
      tok = ⟨⟨u4.mark, u'.mark⟩, .scalar (if lit then ScalarStyle.literal else ScalarStyle.folded) text⟩ ∧
      Pos u' tail (L + k + 1) 0 N)

/-- after the header line, indentation auto-detected from the first content line -/
theorem ev_blockAfterHeader (lit : Bool) (text : Str) (sm : Marker) (ch : Chomping) (cb : Str) (ind : Nat) (hind : ind ≠ 0) (tail : Str)
    (ls : List (Str × Brk)) (l : Str) (b : Brk)
    (hl : GoodLine l) (hl1 : l.headD '\x00' ≠ ' ') (u : Sc) (L : Nat) (I : Int) (N : Nat)
    (hI : (I + 1).toNat ≤ ind)
    (hcontent : ContentOk lit ch ind text (l ++ (b.txt ++ restLinesB ind ls tail)) tail ls.length N)
    (h : At u (List.replicate ind ' ' ++ (l ++ (b.txt ++ restLinesB ind ls tail))) L 0 I N) :
    EvR (blockAfterHeader lit sm ch 0 cb) u (fun tok u' =>
      IsTok lit tok text L ind (L + ls.length + 1)
        (l ++ (b.txt ++ restLinesB ind ls tail)).length tail.length N ∧ Pos u' tail (L + ls.length + 1) 0 N) := by
  obtain ⟨c0, l0, rfl⟩ : ∃ c0 l0, l = c0 :: l0 := by
    cases l with
    | nil => exact absurd rfl hl.1
    | cons c t => exact ⟨c, t, rfl⟩
  have hc0 := nb_not_break (hl.2 c0 (by simp))
  obtain ⟨n, rfl⟩ : ∃ n, ind = n + 1 := ⟨ind - 1, by omega⟩
  unfold blockAfterHeader
  apply EvR.bindEv (ev_lookCh h)
  intro u1 h1
  simp only [List.replicate_succ, List.cons_append, List.headD_cons, show ((' ' : Char) == '\t') = false by decide,
    Bool.false_eq_true, ↓reduceIte]
  apply EvR.bindEv (ev_getS h1)
  intro u2 h2
  have hbi : blockIndent 0 u1 = skipBlockScalarFirstLineIndent [] := by
    unfold blockIndent; simp
  rw [hbi]
  have hfl := ev_firstLineIndent (n + 1) hind u2 ((c0 :: l0) ++ (b.txt ++ restLinesB (n + 1) ls tail)) L I N
    (by simpa [List.replicate_succ] using h2) (by simpa using hl1) (by simpa using hc0.1) hI
  apply EvR.bindEv hfl
  intro u3 h3
  apply EvR.bindEv (ev_nextIs isZ true h3)
  intro u4 h4
  simp only [List.cons_append, ans, hc0.2, Bool.false_eq_true, ↓reduceIte]
  apply EvR.getS_bind
  refine EvR.mono (hcontent u4 L I h4) ?_
  intro tok u' ⟨htok, hpos⟩
  refine ⟨?_, hpos⟩
  subst htok
  exact ⟨rfl, h4.line, h4.col, hpos.2.2.1, hpos.2.2.2.1, h4.off, hpos.2.2.2.2⟩

-- the header line ---------------------------------------------------------------------------------------------

/-- the chomping indicator of the header (no indentation indicator: the indentation is detected) -/
inductive Hdr | clip | strip | keep
deriving Repr, DecidableEq

def Hdr.txt : Hdr → Str | .clip => [] | .strip => ['-'] | .keep => ['+']
def Hdr.chomp : Hdr → Chomping | .clip => .clip | .strip => .strip | .keep => .keep

theorem ev_blockHeader (sm : Marker) (hd : Hdr) (b0 : Brk) (R : Str) (u : Sc) (L C : Nat) (I : Int) (N : Nat)
    (h : At u (hd.txt ++ (b0.txt ++ R)) L C I N) :
    Ev (blockHeader sm ((hd.txt ++ (b0.txt ++ R)).headD '\x00') false) u (hd.chomp, 0)
      (fun u' => At u' (b0.txt ++ R) L (C + hd.txt.length) I N) := by
  obtain ⟨cb, rb, hbr, hcb1, hcb2⟩ := brk_head b0 R
  have hcbd : isDigit cb = false := by
    cases b0 <;> simp [Brk.txt] at hbr <;> (rw [← hbr.1]; decide)
  have hcbpm : (cb == '+' || cb == '-') = false := by
    cases b0 <;> simp [Brk.txt] at hbr <;> (rw [← hbr.1]; decide)
  cases hd with
  | clip =>
    simp only [Hdr.txt, List.nil_append, hbr, List.headD_cons] at h ⊢
    unfold blockHeader
    simp only [hcbpm, Bool.false_eq_true, ↓reduceIte]
    exact Ev.pure' u rfl (by simpa [hbr] using h)
  | strip =>
    simp only [Hdr.txt, List.cons_append, List.nil_append, List.headD_cons] at h ⊢
    unfold blockHeader
    simp only [show (('-' : Char) == '+' || '-' == '-') = true by decide, ↓reduceIte]
    apply Ev.bind (ev_skipNonBlank h)
    intro u1 h1
    apply Ev.bind (ev_lookahead 1 h1)
    intro u2 h2
    unfold blockHeaderDigit
    apply Ev.bind (ev_nextIs isDigit false h2)
    intro u3 h3
    simp only [hbr, ans, hcbd, Bool.false_eq_true, ↓reduceIte]
    exact Ev.pure' u3 rfl (by simpa [hbr, Hdr.txt] using h3)
  | keep =>
    simp only [Hdr.txt, List.cons_append, List.nil_append, List.headD_cons] at h ⊢
    unfold blockHeader
    simp only [show (('+' : Char) == '+' || '+' == '-') = true by decide, ↓reduceIte]
    apply Ev.bind (ev_skipNonBlank h)
    intro u1 h1
    apply Ev.bind (ev_lookahead 1 h1)
    intro u2 h2
    unfold blockHeaderDigit
    apply Ev.bind (ev_nextIs isDigit false h2)
    intro u3 h3
    simp only [hbr, ans, hcbd, Bool.false_eq_true, ↓reduceIte]
    exact Ev.pure' u3 rfl (by simpa [hbr, Hdr.txt] using h3)

theorem ev_skipWsToEol (b0 : Brk) (R : Str) (u : Sc) (L C : Nat) (I : Int) (N : Nat) (h : At u (b0.txt ++ R) L C I N) :
    Ev (Sc.skipWsToEol .yes) u (.result false false) (fun u' => At u' (b0.txt ++ R) L C I N) := by
  apply Ev.ok (u' := { u with inp := { u.inp with iter := b0.txt ++ R }, mark := ⟨u.mark.index + 0, u.mark.line, u.mark.col + 0⟩ })
  · cases b0 <;>
      simp [Sc.skipWsToEol, Sc.liftI, In.skipWsToEol, h.kind, h.iter, Brk.txt, In.strSkipBlanks, Bind.bind, advance, modS,
        Pure.pure, getMark]
  · exact ⟨h.kind, rfl, h.line, h.col, h.indent, h.off⟩

/-- **A whole literal block scalar, from just after its `|`.** The header is nothing, `-` or `+`; the header line
    ends with any spelling of a line break; the first content line fixes the indentation `ind ≥ 1` (deeper than
    the parent); every content line ends with its own spelling of a break; the text goes on with something that
    does not start with a space or a break (a less indented line, or the end of the input). Then the scanner
    either runs out of the fuel it was given or returns the token of a literal scalar whose text is the lines
    joined by line feeds, chomped as the header says, spanning from the first content line to column 0 of the
    line after the last one. -/
theorem block_token (lit : Bool) (text : Str) (sm : Marker) (hd : Hdr) (b0 : Brk) (ind : Nat) (hind : ind ≠ 0) (tail : Str)
    (ls : List (Str × Brk)) (l : Str) (b : Brk)
    (hl : GoodLine l) (hl1 : l.headD '\x00' ≠ ' ') (u : Sc) (L C : Nat) (I : Int) (N : Nat)
    (hI : (I + 1).toNat ≤ ind)
    (hcontent : ContentOk lit hd.chomp ind text (l ++ (b.txt ++ restLinesB ind ls tail)) tail ls.length N)
    (h : At u (hd.txt ++ (b0.txt ++ (List.replicate ind ' ' ++ (l ++ (b.txt ++ restLinesB ind ls tail))))) L C I N) :
    EvR (scanBlockScalarBody lit sm) u (fun tok u' =>
      IsTok lit tok text (L + 1) ind (L + 1 + ls.length + 1)
        (l ++ (b.txt ++ restLinesB ind ls tail)).length tail.length N ∧
      Pos u' tail (L + 1 + ls.length + 1) 0 N) := by
  generalize hR : List.replicate ind ' ' ++ (l ++ (b.txt ++ restLinesB ind ls tail)) = R at h
  have hRh : R.headD '\x00' ≠ '\n' := by
    rw [← hR]
    obtain ⟨n, rfl⟩ : ∃ n, ind = n + 1 := ⟨ind - 1, by omega⟩
    simp [List.replicate_succ]
  obtain ⟨cb, rb, hbr, hcb1, hcb2⟩ := brk_head b0 R
  have hcbd : isDigit cb = false := by
    cases b0 <;> simp [Brk.txt] at hbr <;> (rw [← hbr.1]; decide)
  unfold scanBlockScalarBody
  apply EvR.bindEv (ev_lookCh h)
  intro u1 h1
  apply EvR.bindEv (ev_nextIs isDigit false h1)
  intro u2 h2
  have hdig : ans isDigit false (hd.txt ++ (b0.txt ++ R)) = false := by
    cases hd <;> simp [Hdr.txt, ans, hbr, hcbd] <;> decide
  rw [hdig]
  apply EvR.bindEv (ev_blockHeader sm hd b0 R u2 L C I N h2)
  intro u3 h3
  show EvR (Sc.skipWsToEol .yes >>= _) u3 _
  apply EvR.bindEv (ev_skipWsToEol b0 R u3 L _ I N h3)
  intro u4 h4
  apply EvR.bindEv (ev_lookahead 1 h4)
  intro u5 h5
  apply EvR.bindEv (ev_nextIs isBreakz true h5)
  intro u6 h6
  have hbz : ans isBreakz true (b0.txt ++ R) = true := by
    rw [hbr]; simp [ans, isBreakz, hcb1]
  simp only [hbz, Bool.not_true, Bool.false_eq_true, ↓reduceIte]
  have hcbk : Ev blockChompingBreak u6 ['\n'] (fun u' => At u' R (L + 1) 0 I N) := by
    unfold blockChompingBreak
    apply Ev.bind (ev_nextIs isBreak false h6)
    intro u7 h7
    have hbk : ans isBreak false (b0.txt ++ R) = true := by rw [hbr]; simp [ans, hcb1]
    simp only [hbk, ↓reduceIte]
    apply Ev.bind (ev_lookahead 2 h7)
    intro u8 h8
    exact ev_readBreak [] b0 h8 hRh
  apply EvR.bindEv hcbk
  intro u9 h9
  rw [← hR] at h9
  exact ev_blockAfterHeader lit text sm hd.chomp ['\n'] ind hind tail ls l b hl hl1 u9 (L + 1) I N hI hcontent h9

theorem literal_block_token (sm : Marker) (hd : Hdr) (b0 : Brk) (ind : Nat) (hind : ind ≠ 0) (tail : Str)
    (ht1 : tail.headD '\x00' ≠ ' ') (ht2 : isBreak (tail.headD '\x00') = false) (ls : List (Str × Brk)) (l : Str) (b : Brk)
    (hl : GoodLine l) (hl1 : l.headD '\x00' ≠ ' ') (hls : ∀ p ∈ ls, GoodLine p.1) (u : Sc) (L C : Nat) (I : Int) (N : Nat)
    (hI : (I + 1).toNat ≤ ind)
    (h : At u (hd.txt ++ (b0.txt ++ (List.replicate ind ' ' ++ (l ++ (b.txt ++ restLinesB ind ls tail))))) L C I N) :
    EvR (scanBlockScalarBody true sm) u (fun tok u' =>
      IsLit tok (chomped hd.chomp (joinB l ls)) (L + 1) ind (L + 1 + ls.length + 1)
        (l ++ (b.txt ++ restLinesB ind ls tail)).length tail.length N ∧
      Pos u' tail (L + 1 + ls.length + 1) 0 N) :=
  block_token true _ sm hd b0 ind hind tail ls l b hl hl1 u L C I N hI
    (fun u4 L' I' h4 => ev_blockContent hd.chomp ind hind tail ht1 ht2 ls l b hl hls u4 L' I' N h4) h

end SaphyrModel.C05T
