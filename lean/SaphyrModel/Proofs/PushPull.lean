import SaphyrModel.Proofs.Run
import SaphyrModel.Proofs.Term
import SaphyrModel.Proofs.History
/-! The push interface (`Parser::load`) delivers the events of plain iteration (used by Props/C17). -/
namespace SaphyrModel

/-- anchors are empty wherever a document can start -/
def JAnch (p : PState) : Prop :=
  (p.state = .streamStart ∨ p.state = .implicitDocumentStart ∨ p.state = .documentStart) → p.anchors = []

-- which state the parser is in, from the grammar configuration ------------------------------------

theorem absStack_last : ∀ (sts : List State) (s : List Ctx), absStack sts = some s → ∃ pre, s = pre ++ [.doc true]
  | [], s, h => by simp [absStack] at h
  | k :: r, s, h => by
    rcases absStack_cons h with ⟨_, _, hs⟩ | ⟨a, b, _, hb, hs⟩
    · exact ⟨[], by simp [hs]⟩
    · obtain ⟨pre, hp⟩ := absStack_last r b hb
      exact ⟨a ++ pre, by simp [hs, hp]⟩

theorem cur_head {st : State} {c : List Ctx} (h : cur st = some c) :
    ∃ x r, c = x :: r ∧ (x = .seq ∨ x = .mapK ∨ x = .mapV) := by
  cases st <;> simp [cur] at h <;> subst h <;> simp

/-- in the configuration `⟨1, []⟩` the parser is in a document-start state with an empty stack -/
theorem R_empty {p : PState} (h : R p ⟨1, []⟩) :
    (p.state = .implicitDocumentStart ∨ p.state = .documentStart) ∧ p.states = [] := by
  unfold R at h
  cases hs : p.state <;> rw [hs] at h <;> simp only [R'] at h
  all_goals first
    | exact ⟨Or.inl rfl, h.2⟩
    | exact ⟨Or.inr rfl, h.2⟩
    | (exfalso; first
        | (simp at h; done)
        | (obtain ⟨_, s, _, hn⟩ := h; simp [nodeAdv] at hn; done)
        | (obtain ⟨_, c, s, hc, _, hst⟩ := h
           obtain ⟨x, r, hx, _⟩ := cur_head hc
           simp [hx] at hst; done))

theorem R_phase0 {p : PState} {st : List Ctx} (h : R p ⟨0, st⟩) : p.state = .streamStart := by
  unfold R at h
  cases hs : p.state <;> rw [hs] at h <;> simp only [R'] at h
  all_goals first
    | rfl
    | (exfalso; first
        | (simp at h; done)
        | (have := h.1; simp at this; done))

theorem R_docTrue {p : PState} (h : R p ⟨1, [.doc true]⟩) : p.state = .documentEnd ∧ p.states = [] := by
  unfold R at h
  cases hs : p.state <;> rw [hs] at h <;> simp only [R'] at h
  all_goals first
    | exact ⟨rfl, h.2⟩
    | (exfalso; first
        | (simp at h; done)
        | (obtain ⟨_, s, _, hn⟩ := h; simp [nodeAdv] at hn; done)
        | (obtain ⟨_, c, s, hc, _, hst⟩ := h
           obtain ⟨x, r, hx, hxx⟩ := cur_head hc
           simp [hx] at hst
           rcases hxx with h1 | h1 | h1 <;> simp [h1] at hst; done))

-- anchors through the document-level functions ------------------------------------------------------

theorem skipDocEnds_anchE (n : Nat) (p q : PState) (h : skipDocEnds n p = .ok q) : q.anchors = p.anchors := by
  induction n generalizing p with
  | zero => simp only [skipDocEnds, Res.ok.injEq] at h; subst h; rfl
  | succ n ih =>
    unfold skipDocEnds at h
    cases hp : peekTok p with
    | err e => simp [hp, Bind.bind] at h
    | panic x => simp [hp, Bind.bind] at h
    | ok t =>
      simp only [hp, Bind.bind] at h
      split at h
      · exact ih (skipTok p) h
      · simp only [Res.ok.injEq] at h; subst h; rfl

theorem directivesLoop_anchE (n : Nat) (p q : PState) (v : Bool) (acc a : List (Str × Str))
    (h : directivesLoop n p v acc = .ok (q, a)) : q.anchors = p.anchors := by
  induction n generalizing p v acc with
  | zero => simp only [directivesLoop, Res.ok.injEq, Prod.mk.injEq] at h; rw [← h.1]
  | succ n ih =>
    unfold directivesLoop at h
    cases hp : peekTok p with
    | err e => simp [hp, Bind.bind] at h
    | panic x => simp [hp, Bind.bind] at h
    | ok t =>
      simp only [hp, Bind.bind] at h
      split at h
      · split at h
        · simp at h
        · exact ih (skipTok p) true acc h
      · split at h
        · exact ih (skipTok p) v acc h
        · split at h
          · simp at h
          · exact ih (skipTok p) v _ h
      · simp only [Res.ok.injEq, Prod.mk.injEq] at h; rw [← h.1]

theorem processDirectives_anchE (n : Nat) (p q : PState) (v : Bool) (h : processDirectives n p v = .ok q) :
    q.anchors = p.anchors := by
  unfold processDirectives at h
  cases hd : directivesLoop n p v [] with
  | err e => simp [hd, Bind.bind] at h
  | panic x => simp [hd, Bind.bind] at h
  | ok r =>
    obtain ⟨q0, a⟩ := r
    simp only [hd, Bind.bind, Res.ok.injEq] at h
    subst h
    exact directivesLoop_anchE n p q0 v [] a hd

theorem explicitDocumentStart_anchE (p : PState) (ev : Event) (sp : Span) (p' : PState)
    (h : explicitDocumentStart p = .ok (ev, sp, p')) : p'.anchors = p.anchors := by
  unfold explicitDocumentStart at h
  cases hd : processDirectives (p.toks.length + 1) p false with
  | err e => simp [hd, Bind.bind] at h
  | panic x => simp [hd, Bind.bind] at h
  | ok q =>
    have ha := processDirectives_anchE _ _ _ _ hd
    simp only [hd, Bind.bind] at h
    cases hp : peekTok q with
    | err e => simp [hp] at h
    | panic x => simp [hp] at h
    | ok t =>
      simp only [hp] at h
      split at h
      · simp only [Res.ok.injEq, Prod.mk.injEq] at h; rw [← h.2.2]; exact ha
      · simp at h

theorem documentStart_anchE (p : PState) (impl : Bool) (ev : Event) (sp : Span) (p' : PState)
    (h : documentStart p impl = .ok (ev, sp, p')) : p'.anchors = p.anchors := by
  unfold documentStart at h
  cases hd : skipDocEnds (p.toks.length + 1) p with
  | err e => simp [hd, Bind.bind] at h
  | panic x => simp [hd, Bind.bind] at h
  | ok q =>
    have ha := skipDocEnds_anchE _ _ _ hd
    simp only [hd, Bind.bind] at h
    cases hp : peekTok q with
    | err e => simp [hp] at h
    | panic x => simp [hp] at h
    | ok t =>
      simp only [hp] at h
      have hex : ∀ ev sp p', explicitDocumentStart q = .ok (ev, sp, p') → p'.anchors = p.anchors :=
        fun ev sp p' h => (explicitDocumentStart_anchE q ev sp p' h).trans ha
      split at h
      · simp only [Res.ok.injEq, Prod.mk.injEq] at h; rw [← h.2.2]; exact ha
      · exact hex _ _ _ h
      · exact hex _ _ _ h
      · exact hex _ _ _ h
      · split at h
        · cases hd2 : processDirectives (q.toks.length + 1) q false with
          | err e => simp [hd2] at h
          | panic x => simp [hd2] at h
          | ok q2 =>
            have ha2 := processDirectives_anchE _ _ _ _ hd2
            simp only [hd2, Res.ok.injEq, Prod.mk.injEq] at h
            rw [← h.2.2]; exact ha2.trans ha
        · exact hex _ _ _ h

theorem streamStart_anchE (p : PState) (ev : Event) (sp : Span) (p' : PState)
    (h : streamStart p = .ok (ev, sp, p')) : p'.anchors = p.anchors := by
  unfold streamStart at h
  cases hp : peekTok p with
  | err e => simp [hp, Bind.bind] at h
  | panic x => simp [hp, Bind.bind] at h
  | ok t =>
    simp only [hp, Bind.bind] at h
    split at h
    · simp only [Res.ok.injEq, Prod.mk.injEq] at h; rw [← h.2.2]; rfl
    · simp at h

theorem documentEnd_anchE (p : PState) (ev : Event) (sp : Span) (p' : PState)
    (h : documentEnd p = .ok (ev, sp, p')) : p'.anchors = [] := by
  unfold documentEnd at h
  cases hp : peekTok p with
  | err e => simp [hp, Bind.bind] at h
  | panic x => simp [hp, Bind.bind] at h
  | ok t =>
    simp only [hp, Bind.bind] at h
    split at h
    · simp only [Res.ok.injEq, Prod.mk.injEq] at h; rw [← h.2.2]; rfl
    · cases hp2 : peekTok (clearAnchors (clearTags p)) with
      | err e => simp [hp2] at h
      | panic x => simp [hp2] at h
      | ok t2 =>
        simp only [hp2] at h
        split at h
        · simp at h
        · simp at h
        · simp only [Res.ok.injEq, Prod.mk.injEq] at h; rw [← h.2.2]; rfl

-- the grammar side -------------------------------------------------------------------------------------

/-- inside a document the grammar stack never consists of a single open collection -/
theorem R_not_single {p : PState} {c : Ctx} (h : R p ⟨1, [c]⟩) (hc : c = .seq ∨ c = .mapK) : False := by
  unfold R at h
  cases hs : p.state <;> rw [hs] at h <;> simp only [R'] at h
  all_goals first
    | (simp at h; done)
    | (have := h.1; simp at this; rcases hc with rfl | rfl <;> simp at this; done)
    | (obtain ⟨_, s, hs1, hn⟩ := h
       obtain ⟨pre, hp⟩ := absStack_last _ _ hs1
       rcases hc with rfl | rfl <;> simp [nodeAdv] at hn <;> rw [← hn] at hp <;>
         (cases pre <;> simp at hp); done)
    | (obtain ⟨_, cc, s, hcc, hs1, hst⟩ := h
       obtain ⟨pre, hp⟩ := absStack_last _ _ hs1
       obtain ⟨x, r, hx, _⟩ := cur_head hcc
       rw [hx, hp] at hst
       have := congrArg List.length hst
       simp at this)

/-- events that empty the grammar stack -/
theorem gStep_to_empty {g : G} {ev : Event} (h : gStep g ev = some ⟨1, []⟩) :
    (g.phase = 0 ∧ ev = .streamStart) ∨ (g = ⟨1, [.doc true]⟩ ∧ ev = .documentEnd) ∨
    (g.phase = 1 ∧ (g.stack = [.seq] ∨ g.stack = [.mapK])) := by
  cases ev <;> simp only [gStep] at h
  case streamStart => split at h <;> simp at h; left; exact ⟨‹_›, rfl⟩
  case streamEnd => split at h <;> simp at h
  case documentStart => split at h <;> simp at h
  case documentEnd =>
    split at h <;> simp at h
    rename_i hc; right; left
    exact ⟨by cases g; simp_all, rfl⟩
  case sequenceEnd =>
    split at h
    · rename_i hp; split at h <;> simp at h
      rename_i r hr; right; right; exact ⟨hp, Or.inl (by rw [hr, h])⟩
    · simp at h
  case mappingEnd =>
    split at h
    · rename_i hp; split at h <;> simp at h
      rename_i r hr; right; right; exact ⟨hp, Or.inr (by rw [hr, h])⟩
    · simp at h
  all_goals
    split at h
    · cases hn : nodeAdv g.stack <;> simp [hn] at h
      try (rename_i s; cases hst : g.stack with
        | nil => simp [hst, nodeAdv] at hn
        | cons x r => cases x <;> (try rename_i b; cases b) <;> simp [hst, nodeAdv] at hn <;> simp [← hn] at h)
    · simp at h

-- one pull --------------------------------------------------------------------------------------------

/-- invariant of the parser between two pulls of the push interface -/
structure PInv (a : Api) (g : G) : Prop where
  rel : R a.p g
  cur : a.current = none
  live : a.p.state ≠ .end
  janch : JAnch a.p

theorem gStep_docStart {g g' : G} {ev : Event} (h : gStep g ev = some g') (hd : isDocumentStart ev = true) :
    g = ⟨1, []⟩ := by
  cases ev <;> simp [isDocumentStart] at hd
  simp only [gStep] at h
  split at h
  · rename_i hc; cases g; simp_all
  · simp at h

theorem gStep_phase_pos {g g' : G} {ev : Event} (h : gStep g ev = some g') : g'.phase ≠ 0 := by
  cases ev <;> simp only [gStep] at h
  all_goals
    split at h
    · first
      | (simp at h; subst h; simp)
      | (cases hn : nodeAdv g.stack <;> simp [hn] at h; subst h; simp)
      | (split at h <;> simp at h; subst h; simp)
    · simp at h

/-- one pull: the event is a grammar step, the invariant is kept (unless the stream has ended), the
    anchor table is empty right after a DocumentStart, and nothing panics -/
theorem pull_step {a : Api} {g : G} (h : PInv a g) :
    match nextImpl a with
    | .ok (v, a1) => ∃ g', gStep g v.1 = some g' ∧ R a1.p g' ∧ a1.current = none ∧ JAnch a1.p ∧
        (isDocumentStart v.1 = true → a1.p.anchors = []) ∧ (a1.p.state = .end → v.1 = .streamEnd) ∧
        a1.endEmitted = a.endEmitted
    | .err _ => True
    | .panic _ => False := by
  unfold nextImpl
  simp only [h.cur]
  have hg := parseStep_good h.rel h.live
  cases hp : parseStep a.p with
  | err e => trivial
  | panic x => simp [hp, Good] at hg
  | ok o =>
    obtain ⟨ev, sp, p'⟩ := o
    simp only [hp, Good] at hg
    obtain ⟨g', hs, hR⟩ := hg
    refine ⟨g', hs, hR, rfl, ?_, ?_, ?_, rfl⟩
    · -- anchors stay empty at document boundaries
      intro hb
      have hg' : g' = ⟨1, []⟩ := by
        unfold R at hR
        rcases hb with hb | hb | hb <;> rw [hb] at hR <;> simp only [R'] at hR
        · exact absurd (by rw [hR.1]) (gStep_phase_pos hs)
        · exact hR.1
        · exact hR.1
      rw [hg'] at hs
      rcases gStep_to_empty hs with ⟨h0, rfl⟩ | ⟨h1, rfl⟩ | ⟨h1, h2⟩
      · have hst : a.p.state = .streamStart := by
          cases hgg : g with
          | mk ph st => rw [hgg] at h0; simp at h0; subst h0; exact R_phase0 (hgg ▸ h.rel)
        have := h.janch (Or.inl hst)
        unfold parseStep at hp; simp only [hst] at hp
        rw [streamStart_anchE _ _ _ _ hp, this]
      · have hst := (R_docTrue (h1 ▸ h.rel)).1
        unfold parseStep at hp; simp only [hst] at hp
        exact documentEnd_anchE _ _ _ _ hp
      · exfalso
        cases hgg : g with
        | mk ph st =>
          rw [hgg] at h1 h2; simp at h1 h2; subst h1
          rcases h2 with rfl | rfl
          · exact R_not_single (hgg ▸ h.rel) (Or.inl rfl)
          · exact R_not_single (hgg ▸ h.rel) (Or.inr rfl)
    · intro hd
      have hg0 := gStep_docStart hs hd
      obtain ⟨hst, _⟩ := R_empty (hg0 ▸ h.rel)
      have hanch : a.p.anchors = [] := h.janch (by rcases hst with h1 | h1 <;> simp [h1])
      unfold parseStep at hp
      rcases hst with hst | hst <;> simp only [hst] at hp <;> rw [documentStart_anchE _ _ _ _ _ hp, hanch]
    · intro hend
      have := R_end_phase hR hend
      exact gStep_phase2 hs (by rw [this])

-- runs of pulls ------------------------------------------------------------------------------------------

/-- `Steps a evs a'`: pulling from `a` yields the events `evs` one after the other and ends in `a'` -/
inductive Steps : Api → List Ev → Api → Prop
  | nil (a : Api) : Steps a [] a
  | cons {a a1 a' : Api} {v : Ev} {evs : List Ev} :
      nextImpl a = .ok (v, a1) → Steps a1 evs a' → Steps a (v :: evs) a'

theorem Steps.trans {a b c : Api} {e1 e2 : List Ev} (h1 : Steps a e1 b) (h2 : Steps b e2 c) : Steps a (e1 ++ e2) c := by
  induction h1 with
  | nil => simpa using h2
  | cons hn _ ih => exact Steps.cons hn (ih h2)

theorem Steps.one {a a1 : Api} {v : Ev} (h : nextImpl a = .ok (v, a1)) : Steps a [v] a1 := Steps.cons h (Steps.nil _)

def NoEnd (evs : List Ev) : Prop := ∀ v ∈ evs, v.1 ≠ .streamEnd

def isColl : Ctx → Bool | .seq | .mapK | .mapV => true | _ => false

/-- `d` collections are open inside the current document's root node -/
def Open (d : Nat) (st : List Ctx) : Prop := ∃ cs, st = cs ++ [.doc true] ∧ cs.length = d ∧ ∀ c ∈ cs, isColl c = true

inductive NodeEv | leaf | start | stop

def nodeEv : Event → Option NodeEv
  | .scalar .. | .alias _ => some .leaf
  | .sequenceStart .. | .mappingStart .. => some .start
  | .sequenceEnd | .mappingEnd => some .stop
  | _ => none

/-- before the root node: only a node can come, and it opens zero or one collection -/
theorem gStep_root {ev : Event} {g' : G} (h : gStep ⟨1, [.doc false]⟩ ev = some g') :
    (nodeEv ev = some .leaf ∧ g' = ⟨1, [.doc true]⟩) ∨ (nodeEv ev = some .start ∧ g'.phase = 1 ∧ Open 1 g'.stack) := by
  cases ev <;> simp [gStep, nodeAdv] at h <;> subst h
  case alias => left; exact ⟨rfl, rfl⟩
  case scalar => left; exact ⟨rfl, rfl⟩
  case sequenceStart => right; exact ⟨rfl, rfl, [.seq], rfl, rfl, by simp [isColl]⟩
  case mappingStart => right; exact ⟨rfl, rfl, [.mapK], rfl, rfl, by simp [isColl]⟩

/-- inside the root node: a leaf keeps the depth, a start adds one, an end removes one -/
theorem gStep_open {d : Nat} {st : List Ctx} {ev : Event} {g' : G} (hd : 1 ≤ d) (ho : Open d st)
    (h : gStep ⟨1, st⟩ ev = some g') :
    g'.phase = 1 ∧ ((nodeEv ev = some .leaf ∧ Open d g'.stack) ∨ (nodeEv ev = some .start ∧ Open (d + 1) g'.stack) ∨
      (nodeEv ev = some .stop ∧ Open (d - 1) g'.stack)) := by
  obtain ⟨cs, rfl, hl, hc⟩ := ho
  cases cs with
  | nil => simp at hl; omega
  | cons c cs' =>
    have hcc := hc c (by simp)
    have hrest : ∀ x ∈ cs', isColl x = true := fun x hx => hc x (by simp [hx])
    simp only [List.length_cons] at hl
    have adv : ∃ c', nodeAdv (c :: (cs' ++ [.doc true])) = some (c' :: (cs' ++ [.doc true])) ∧ isColl c' = true := by
      cases c <;> simp [isColl] at hcc <;> simp [nodeAdv, isColl]
    obtain ⟨c', hadv, hc'⟩ := adv
    have hall : ∀ x ∈ c' :: cs', isColl x = true := by
      intro x hx; simp at hx; rcases hx with rfl | hx; exact hc'; exact hrest x hx
    cases ev <;> simp only [gStep, List.cons_append, true_and, ↓reduceIte] at h
    case streamStart => simp at h
    case streamEnd => simp at h
    case documentStart => simp at h
    case documentEnd => simp at h
    case alias =>
      rw [hadv] at h; simp at h; subst h
      exact ⟨rfl, Or.inl ⟨rfl, c' :: cs', rfl, by simp [hl], hall⟩⟩
    case scalar =>
      rw [hadv] at h; simp at h; subst h
      exact ⟨rfl, Or.inl ⟨rfl, c' :: cs', rfl, by simp [hl], hall⟩⟩
    case sequenceStart =>
      rw [hadv] at h; simp at h; subst h
      exact ⟨rfl, Or.inr (Or.inl ⟨rfl, .seq :: c' :: cs', rfl, by simp [hl], by
        intro x hx; simp at hx; rcases hx with rfl | hx; rfl; exact hall x (by simpa using hx)⟩)⟩
    case mappingStart =>
      rw [hadv] at h; simp at h; subst h
      exact ⟨rfl, Or.inr (Or.inl ⟨rfl, .mapK :: c' :: cs', rfl, by simp [hl], by
        intro x hx; simp at hx; rcases hx with rfl | hx; rfl; exact hall x (by simpa using hx)⟩)⟩
    case sequenceEnd =>
      cases c <;> simp at h
      subst h
      exact ⟨rfl, Or.inr (Or.inr ⟨rfl, cs', rfl, by omega, hrest⟩)⟩
    case mappingEnd =>
      cases c <;> simp at h
      subst h
      exact ⟨rfl, Or.inr (Or.inr ⟨rfl, cs', rfl, by omega, hrest⟩)⟩

-- the node loop ------------------------------------------------------------------------------------------

theorem pull_of_next {s : Push} {v : Ev} {a1 : Api} (h : nextImpl s.api = .ok (v, a1)) :
    s.pull = .ok (v, { s with api := a1 }) := by simp [Push.pull, h]

theorem lnl_leaf {n d : Nat} {s s1 : Push} {e : Ev} (hp : s.pull = .ok (e, s1)) (hv : nodeEv e.1 = some .leaf) :
    loadNodeLoop (n + 1) d s = if d = 0 then .ok (s1.recv e) else loadNodeLoop n d (s1.recv e) := by
  conv => lhs; unfold loadNodeLoop
  simp only [hp]
  cases he : e.1 <;> rw [he] at hv <;> simp [nodeEv] at hv <;> rfl
theorem lnl_start {n d : Nat} {s s1 : Push} {e : Ev} (hp : s.pull = .ok (e, s1)) (hv : nodeEv e.1 = some .start) :
    loadNodeLoop (n + 1) d s = loadNodeLoop n (d + 1) (s1.recv e) := by
  conv => lhs; unfold loadNodeLoop
  simp only [hp]
  cases he : e.1 <;> rw [he] at hv <;> simp [nodeEv] at hv <;> rfl
theorem lnl_stop {n d : Nat} {s s1 : Push} {e : Ev} (hp : s.pull = .ok (e, s1)) (hv : nodeEv e.1 = some .stop) :
    loadNodeLoop (n + 1) d s =
      if d = 0 then .panic .loadNodeUnreachable else if d = 1 then .ok (s1.recv e) else loadNodeLoop n (d - 1) (s1.recv e) := by
  conv => lhs; unfold loadNodeLoop
  simp only [hp]
  cases he : e.1 <;> rw [he] at hv <;> simp [nodeEv] at hv <;> rfl

theorem nodeEv_not_end {ev : Event} {k : NodeEv} (h : nodeEv ev = some k) : ev ≠ .streamEnd := by
  intro he; subst he; simp [nodeEv] at h

/-- what the node loop does, in terms of pulls -/
def NodeSpec (n : Nat) (s : Push) (r : Res Push) : Prop :=
  match r with
  | .ok s' => ∃ evs, Steps s.api evs s'.api ∧ s'.out = evs.reverse ++ s.out ∧ PInv s'.api ⟨1, [.doc true]⟩ ∧ NoEnd evs ∧
      phi s'.api.p < phi s.api.p
  | .err e => ∃ evs a', Steps s.api evs a' ∧ NoEnd evs ∧ nextImpl a' = .err e
  | .panic x => x = .fuel ∧ n ≤ phi s.api.p

/-- a pull strictly decreases the parser's potential -/
theorem pull_phi {a a1 : Api} {v : Ev} (hc : a.current = none) (hne : a.p.state ≠ .end)
    (h : nextImpl a = .ok (v, a1)) : phi a1.p < phi a.p := by
  unfold nextImpl at h
  simp only [hc] at h
  have hb := parseStep_below a.p hne
  cases hp : parseStep a.p with
  | err e => simp [hp] at h
  | panic x => simp [hp] at h
  | ok o =>
    obtain ⟨ev, sp, p'⟩ := o
    simp only [hp, Below] at hb
    simp only [hp, Res.ok.injEq, Prod.mk.injEq] at h
    rw [← h.2]; exact hb

theorem NodeSpec_step {n : Nat} {s s1 : Push} {v : Ev} {r : Res Push} (hn : nextImpl s.api = .ok (v, s1.api))
    (hout : s1.out = v :: s.out) (hv : v.1 ≠ .streamEnd) (hphi : phi s1.api.p < phi s.api.p)
    (h : NodeSpec n s1 r) : NodeSpec (n + 1) s r := by
  cases r with
  | ok s' =>
    obtain ⟨evs, hs, ho, hi, hne, hph⟩ := h
    exact ⟨v :: evs, Steps.cons hn hs, by simp [ho, hout], hi, by
      intro x hx; simp at hx; rcases hx with rfl | hx; exact hv; exact hne x hx, by omega⟩
  | err e =>
    obtain ⟨evs, a', hs, hne, herr⟩ := h
    exact ⟨v :: evs, a', Steps.cons hn hs, by
      intro x hx; simp at hx; rcases hx with rfl | hx; exact hv; exact hne x hx, herr⟩
  | panic x => exact ⟨h.1, by have := h.2; omega⟩

theorem nodeLoop_spec (n : Nat) : ∀ (d : Nat) (s : Push) (g : G), PInv s.api g → g.phase = 1 →
    ((d = 0 ∧ g.stack = [.doc false]) ∨ (1 ≤ d ∧ Open d g.stack)) → NodeSpec n s (loadNodeLoop n d s) := by
  induction n with
  | zero => intro d s g _ _ _; simp [loadNodeLoop, NodeSpec]
  | succ n ih =>
    intro d s g h hph hctx
    have hstep := pull_step h
    cases hn : nextImpl s.api with
    | err e =>
      have : loadNodeLoop (n + 1) d s = .err e := by simp [loadNodeLoop, Push.pull, hn]
      rw [this]; exact ⟨[], s.api, Steps.nil _, by intro x hx; simp at hx, hn⟩
    | panic x => simp [hn] at hstep
    | ok o =>
      obtain ⟨v, a1⟩ := o
      simp only [hn] at hstep
      obtain ⟨g', hs, hR, hc, hJ, _, hend, _⟩ := hstep
      have hpull := pull_of_next hn
      have hg : g = ⟨1, g.stack⟩ := by cases g; simp_all
      rw [hg] at hs
      -- the state after this pull, as a Push
      let s1 : Push := ({ s with api := a1 } : Push).recv v
      have hs1api : s1.api = a1 := rfl
      have hs1out : s1.out = v :: s.out := rfl
      have hphi : phi s1.api.p < phi s.api.p := pull_phi h.cur h.live hn
      have mkInv : ∀ k, nodeEv v.1 = some k → ∀ gg, gg = g' → PInv s1.api gg := by
        intro k hk gg hgg; subst hgg
        exact ⟨hR, hc, fun he => nodeEv_not_end hk (hend he), hJ⟩
      rcases hctx with ⟨hd0, hst⟩ | ⟨hd1, hopen⟩
      · subst hd0
        rw [hst] at hs
        rcases gStep_root hs with ⟨hk, hg'⟩ | ⟨hk, hp', ho'⟩
        · rw [lnl_leaf hpull hk]; simp only [↓reduceIte]
          exact ⟨[v], Steps.one hn, by simp [Push.recv], mkInv _ hk _ hg'.symm,
            by intro x hx; simp at hx; subst hx; exact nodeEv_not_end hk, hphi⟩
        · rw [lnl_start hpull hk]
          exact NodeSpec_step (s1 := s1) hn hs1out (nodeEv_not_end hk) hphi
            (ih 1 s1 g' (mkInv _ hk _ rfl) hp' (Or.inr ⟨Nat.le_refl _, ho'⟩))
      · obtain ⟨hp', hcases⟩ := gStep_open hd1 hopen hs
        rcases hcases with ⟨hk, ho'⟩ | ⟨hk, ho'⟩ | ⟨hk, ho'⟩
        · rw [lnl_leaf hpull hk]
          have : d ≠ 0 := by omega
          simp only [this, ↓reduceIte]
          exact NodeSpec_step (s1 := s1) hn hs1out (nodeEv_not_end hk) hphi
            (ih d s1 g' (mkInv _ hk _ rfl) hp' (Or.inr ⟨hd1, ho'⟩))
        · rw [lnl_start hpull hk]
          exact NodeSpec_step (s1 := s1) hn hs1out (nodeEv_not_end hk) hphi
            (ih (d + 1) s1 g' (mkInv _ hk _ rfl) hp' (Or.inr ⟨by omega, ho'⟩))
        · rw [lnl_stop hpull hk]
          have : d ≠ 0 := by omega
          simp only [this, ↓reduceIte]
          by_cases hd : d = 1
          · simp only [hd, ↓reduceIte]
            subst hd
            have hg'1 : g' = ⟨1, [.doc true]⟩ := by
              obtain ⟨cs, hcs, hl, _⟩ := ho'
              cases cs with
              | nil =>
                cases hgg : g' with
                | mk ph st => rw [hgg] at hp' hcs; simp at hp' hcs; rw [hp', hcs]
              | cons _ _ => simp at hl
            exact ⟨[v], Steps.one hn, by simp [Push.recv], mkInv _ hk _ hg'1.symm,
              by intro x hx; simp at hx; subst hx; exact nodeEv_not_end hk, hphi⟩
          · simp only [hd, ↓reduceIte]
            exact NodeSpec_step (s1 := s1) hn hs1out (nodeEv_not_end hk) hphi
              (ih (d - 1) s1 g' (mkInv _ hk _ rfl) hp' (Or.inr ⟨by omega, ho'⟩))

-- documents and the stream ---------------------------------------------------------------------------------

/-- what the document loop does, in terms of pulls: it forwards everything up to and including StreamEnd -/
def LoopSpec (n : Nat) (s : Push) (r : Res Push) : Prop :=
  match r with
  | .ok s' => ∃ evs vEnd a1, Steps s.api evs a1 ∧ NoEnd evs ∧ nextImpl a1 = .ok (vEnd, s'.api) ∧
      vEnd.1 = .streamEnd ∧ s'.out = vEnd :: (evs.reverse ++ s.out)
  | .err e => ∃ evs a', Steps s.api evs a' ∧ NoEnd evs ∧ nextImpl a' = .err e
  | .panic x => x = .fuel ∧ n ≤ phi s.api.p

theorem gStep_between {ev : Event} {g' : G} (h : gStep ⟨1, []⟩ ev = some g') :
    (ev = .streamEnd ∧ g' = ⟨2, []⟩) ∨ (isDocumentStart ev = true ∧ g' = ⟨1, [.doc false]⟩) := by
  cases ev <;> simp [gStep, nodeAdv] at h
  case streamEnd => left; exact ⟨rfl, h.symm⟩
  case documentStart => right; exact ⟨rfl, h.symm⟩

theorem gStep_afterNode {ev : Event} {g' : G} (h : gStep ⟨1, [.doc true]⟩ ev = some g') :
    ev = .documentEnd ∧ g' = ⟨1, []⟩ := by
  cases ev <;> simp [gStep, nodeAdv] at h
  exact ⟨rfl, h.symm⟩

theorem clear_noop (a : Api) (h : a.p.anchors = []) : ({ a with p := { a.p with anchors := [] } } : Api) = a := by
  cases a with
  | mk p c e => cases p; simp_all

theorem loop_spec (n : Nat) : ∀ (s : Push), PInv s.api ⟨1, []⟩ → LoopSpec n s (loadLoop true n s) := by
  induction n with
  | zero => intro s _; simp [loadLoop, LoopSpec]
  | succ n ih =>
    intro s h
    have hstep := pull_step h
    unfold loadLoop
    cases hn : nextImpl s.api with
    | err e =>
      simp only [Push.pull, hn]
      exact ⟨[], s.api, Steps.nil _, by intro x hx; simp at hx, hn⟩
    | panic x => simp [hn] at hstep
    | ok o =>
      obtain ⟨v, a1⟩ := o
      simp only [hn] at hstep
      obtain ⟨g', hs, hR, hc, hJ, hdoc, hend, _⟩ := hstep
      have hphi : phi a1.p < phi s.api.p := pull_phi h.cur h.live hn
      simp only [Push.pull, hn]
      rcases gStep_between hs with ⟨hv, _⟩ | ⟨hv, hg'⟩
      · -- StreamEnd: done
        simp only [hv, beq_self_eq_true, ↓reduceIte]
        exact ⟨[], v, s.api, Steps.nil _, by intro x hx; simp at hx, hn, hv, by simp [Push.recv]⟩
      · have hne : (v.1 == Event.streamEnd) = false := by
          cases hv1 : v.1 <;> simp [hv1, isDocumentStart] at hv ⊢
        have hvne : v.1 ≠ .streamEnd := by intro h0; rw [h0] at hne; simp at hne
        simp only [hne, Bool.false_eq_true, ↓reduceIte]
        -- clearing the anchors changes nothing: they are empty right after DocumentStart
        have hcl := clear_noop a1 (hdoc hv)
        have hs0 : ({ api := { a1 with p := { a1.p with anchors := [] } }, out := s.out } : Push) = ⟨a1, s.out⟩ := by
          rw [hcl]
        simp only [hs0]
        unfold loadDocument
        simp only [hv, Bool.not_true, Bool.false_eq_true, ↓reduceIte]
        -- the root node
        have hI1 : PInv a1 ⟨1, [.doc false]⟩ := ⟨hg' ▸ hR, hc, fun he => hvne (hend he), hJ⟩
        have hnode := nodeLoop_spec n 0 ((⟨a1, s.out⟩ : Push).recv v) ⟨1, [.doc false]⟩ hI1 rfl (Or.inl ⟨rfl, rfl⟩)
        cases hl : loadNodeLoop n 0 ((⟨a1, s.out⟩ : Push).recv v) with
        | err e =>
          simp only [hl, NodeSpec] at hnode ⊢
          obtain ⟨evs, a', hst, hne', herr⟩ := hnode
          exact ⟨v :: evs, a', Steps.cons hn hst, by
            intro x hx; simp at hx; rcases hx with rfl | hx; exact hvne; exact hne' x hx, herr⟩
        | panic x =>
          simp only [hl, NodeSpec] at hnode ⊢
          exact ⟨hnode.1, by have := hnode.2; simp [Push.recv] at this; omega⟩
        | ok s2 =>
          simp only [hl, NodeSpec] at hnode ⊢
          obtain ⟨evs, hst, hout, hI2, hne2, hph2⟩ := hnode
          simp only [Push.recv] at hph2 hout
          -- DocumentEnd
          have hstep2 := pull_step hI2
          cases hn2 : nextImpl s2.api with
          | err e =>
            simp only [Push.pull, hn2]
            exact ⟨v :: evs, s2.api, Steps.cons hn hst, by
              intro x hx; simp at hx; rcases hx with rfl | hx; exact hvne; exact hne2 x hx, hn2⟩
          | panic x => simp [hn2] at hstep2
          | ok o2 =>
            obtain ⟨v2, a3⟩ := o2
            simp only [hn2] at hstep2
            obtain ⟨g3, hs3, hR3, hc3, hJ3, _, hend3, _⟩ := hstep2
            obtain ⟨hv2, hg3⟩ := gStep_afterNode hs3
            have hphi3 : phi a3.p < phi s2.api.p := pull_phi hI2.cur hI2.live hn2
            simp only [Push.pull, hn2, hv2, beq_self_eq_true, ↓reduceIte]
            have hv2ne : v2.1 ≠ .streamEnd := by rw [hv2]; simp
            have hI3 : PInv a3 ⟨1, []⟩ := ⟨hg3 ▸ hR3, hc3, fun he => hv2ne (hend3 he), hJ3⟩
            -- the remaining documents
            have hrec := ih (({ s2 with api := a3 } : Push).recv v2) hI3
            have hsteps : Steps s.api (v :: evs ++ [v2]) a3 :=
              Steps.cons hn (Steps.trans hst (Steps.one hn2))
            have hne3 : NoEnd (v :: evs ++ [v2]) := by
              intro x hx; simp at hx
              rcases hx with rfl | hx | rfl
              · exact hvne
              · exact hne2 x hx
              · exact hv2ne
            cases hl2 : loadLoop true n (({ s2 with api := a3 } : Push).recv v2) with
            | ok s4 =>
              simp only [hl2, LoopSpec] at hrec ⊢
              obtain ⟨evs4, vEnd, a5, hst4, hne4, hn5, hvend, hout4⟩ := hrec
              refine ⟨(v :: evs ++ [v2]) ++ evs4, vEnd, a5, Steps.trans hsteps hst4, ?_, hn5, hvend, ?_⟩
              · intro x hx; rw [List.mem_append] at hx
                rcases hx with hx | hx; exact hne3 x hx; exact hne4 x hx
              · simp [hout4, Push.recv, hout]
            | err e =>
              simp only [hl2, LoopSpec] at hrec ⊢
              obtain ⟨evs4, a', hst4, hne4, herr⟩ := hrec
              refine ⟨(v :: evs ++ [v2]) ++ evs4, a', Steps.trans hsteps hst4, ?_, herr⟩
              intro x hx; rw [List.mem_append] at hx
              rcases hx with hx | hx; exact hne3 x hx; exact hne4 x hx
            | panic x =>
              simp only [hl2, LoopSpec] at hrec ⊢
              exact ⟨hrec.1, by have := hrec.2; simp [Push.recv] at this; omega⟩

-- `Parser::load` on a fresh parser, and plain iteration ---------------------------------------------------------

theorem gStep_first {ev : Event} {g' : G} (h : gStep ⟨0, []⟩ ev = some g') : ev = .streamStart ∧ g' = ⟨1, []⟩ := by
  cases ev <;> simp [gStep] at h
  exact ⟨rfl, h.symm⟩

/-- `load(multi = true)` on a fresh parser, in terms of pulls -/
theorem load_spec (n : Nat) (p0 : PState) (hst : p0.state = .streamStart) (hss : p0.states = []) (ha : p0.anchors = []) :
    LoopSpec n ⟨Api.init p0, []⟩ (load true n ⟨Api.init p0, []⟩) := by
  have hI : PInv (Api.init p0) ⟨0, []⟩ :=
    ⟨by simp [Api.init, R, R', hst, hss], rfl, by simp [Api.init, hst], fun _ => ha⟩
  unfold load
  simp only [Api.init, hst, bne_self_eq_false, Option.isSome_none, Bool.or_self, Bool.not_false, ↓reduceIte]
  have hstep := pull_step hI
  cases hn : nextImpl (Api.init p0) with
  | err e =>
    simp only [Api.init] at hn
    simp only [Push.pull, hn]
    exact ⟨[], _, Steps.nil _, by intro x hx; simp at hx, hn⟩
  | panic x => simp [hn] at hstep
  | ok o =>
    obtain ⟨v, a1⟩ := o
    simp only [hn] at hstep
    obtain ⟨g', hs, hR, hc, hJ, _, hend, _⟩ := hstep
    obtain ⟨hv, hg'⟩ := gStep_first hs
    have hphi : phi a1.p < phi (Api.init p0).p := pull_phi hI.cur hI.live hn
    simp only [Api.init] at hn hphi
    simp only [Push.pull, hn, hv, bne_self_eq_false, Bool.false_eq_true, ↓reduceIte]
    have hvne : v.1 ≠ .streamEnd := by rw [hv]; simp
    have hI1 : PInv a1 ⟨1, []⟩ := ⟨hg' ▸ hR, hc, fun he => hvne (hend he), hJ⟩
    have hrec := loop_spec n ((⟨a1, []⟩ : Push).recv v) hI1
    cases hl : loadLoop true n ((⟨a1, []⟩ : Push).recv v) with
    | ok s4 =>
      simp only [hl, LoopSpec] at hrec ⊢
      obtain ⟨evs4, vEnd, a5, hst4, hne4, hn5, hvend, hout4⟩ := hrec
      refine ⟨v :: evs4, vEnd, a5, Steps.cons hn hst4, ?_, hn5, hvend, ?_⟩
      · intro x hx; simp at hx; rcases hx with rfl | hx; exact hvne; exact hne4 x hx
      · simp [hout4, Push.recv]
    | err e =>
      simp only [hl, LoopSpec] at hrec ⊢
      obtain ⟨evs4, a', hst4, hne4, herr⟩ := hrec
      refine ⟨v :: evs4, a', Steps.cons hn hst4, ?_, herr⟩
      intro x hx; simp at hx; rcases hx with rfl | hx; exact hvne; exact hne4 x hx
    | panic x =>
      simp only [hl, LoopSpec] at hrec ⊢
      exact ⟨hrec.1, by have := hrec.2; simp only [Push.recv] at this; omega⟩

/-- pulls that are not StreamEnd are what plain iteration returns, in the same order -/
theorem iterSpec_of_steps {a a' : Api} {evs : List Ev} (hs : Steps a evs a') (hne : NoEnd evs)
    (he : a.endEmitted = false) (m : Nat) :
    iterSpec (evs.length + m) a = (evs ++ (iterSpec m a').1, (iterSpec m a').2) ∧ a'.endEmitted = false := by
  induction hs with
  | nil a => simp [he]
  | @cons a a1 a' v evs hn _ ih =>
    have hv : v.1 ≠ .streamEnd := hne v (by simp)
    have hne' : NoEnd evs := fun x hx => hne x (by simp [hx])
    have hnext : a.next = (some (.ok v), { a1 with endEmitted := false }) := by
      simp [Api.next, he, hn, hv]
    have he1 : a1.endEmitted = false := by
      rw [(nextImpl_current hn).2]; exact he
    have ha1 : ({ a1 with endEmitted := false } : Api) = a1 := by cases a1; simp_all
    rw [ha1] at hnext
    obtain ⟨ih1, ih2⟩ := ih hne' he1
    refine ⟨?_, ih2⟩
    rw [show (v :: evs).length + m = (evs.length + m) + 1 by simp; omega]
    simp only [iterSpec, hnext, ih1, List.cons_append]

end SaphyrModel
