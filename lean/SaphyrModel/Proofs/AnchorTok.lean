import SaphyrModel.Proofs.SingleQuoted
/-! C03, anchors and aliases at token level: `&name` / `*name` is scanned to an anchor / alias token carrying
exactly the name — for every name of anchor characters (string input). -/
set_option linter.unusedSimpArgs false
namespace SaphyrModel.C03A
open SaphyrModel SaphyrModel.Sc SaphyrModel.C10 SaphyrModel.C05 SaphyrModel.C05T SaphyrModel.C04S

/-- the name loop: anchor characters are collected up to the first character that is not one -/
theorem ev_anchorGo : ∀ (name : Str) (fuel : Nat) (str : Str) (tl : Str) (u : Sc) (L C : Nat) (I : Int) (N : Nat),
    (∀ c ∈ name, isAnchorChar c = true) → isAnchorChar (tl.headD '\x00') = false →
    At u (name ++ tl) L C I N →
    Ev (scanAnchorGo fuel str) u (str ++ name) (fun u' => At u' tl L (C + name.length) I N) := by
  intro name
  induction name with
  | nil =>
    intro fuel str tl u L C I N _ htl h
    cases fuel with
    | zero => left; exact ⟨_, rfl⟩
    | succ f =>
      unfold scanAnchorGo
      simp only [List.nil_append] at h
      apply Ev.bind (ev_lookCh h)
      intro u1 h1
      simp only [htl, Bool.false_eq_true, ↓reduceIte, List.append_nil, List.length_nil, Nat.add_zero]
      exact Ev.pure _ u1 h1
  | cons c name ih =>
    intro fuel str tl u L C I N hn htl h
    cases fuel with
    | zero => left; exact ⟨_, rfl⟩
    | succ f =>
      have hc : isAnchorChar c = true := hn c (by simp)
      unfold scanAnchorGo
      simp only [List.cons_append] at h
      apply Ev.bind (ev_lookCh h)
      intro u1 h1
      simp only [List.headD_cons, hc, ↓reduceIte]
      apply Ev.bind (ev_skipNonBlank h1)
      intro u2 h2
      have := ih f (str ++ [c]) tl u2 L (C + 1) I N (fun d hd => hn d (by simp [hd])) htl h2
      simp only [List.length_cons]
      rw [show C + (name.length + 1) = C + 1 + name.length by omega]
      simpa [List.append_assoc] using this

/-- **An anchor or alias token carries exactly the name.** The scanner stands at `&` (or `*`); what follows is
    a non-empty name of anchor characters (anything but blanks, breaks, NUL, BOM and the flow indicators) and then
    a character that is not one (a blank, a break, a flow indicator, the end of the input). The token is an
    anchor (alias) with exactly that name, spanning the indicator and the name. -/
theorem anchor_token (alias : Bool) (ind : Char) (name tl : Str) (hne : name ≠ []) (hn : ∀ c ∈ name, isAnchorChar c = true)
    (htl : isAnchorChar (tl.headD '\x00') = false) (u : Sc) (L C : Nat) (I : Int) (N : Nat)
    (h : At u (ind :: (name ++ tl)) L C I N) :
    EvR (scanAnchor alias) u (fun tok u' =>
      tok.ty = (if alias then TokenType.alias name else TokenType.anchor name) ∧ tok.span.start = u.mark ∧
      tok.span.stop = u'.mark ∧ At u' tl L (C + 1 + name.length) I N) := by
  unfold scanAnchor
  apply EvR.getMark_bind
  apply EvR.bindEv (ev_skipNonBlank h)
  intro u1 h1
  apply EvR.getS_bind
  apply EvR.bindEv (ev_anchorGo name _ [] tl u1 L (C + 1) I N hn htl h1)
  intro u2 h2
  have : name.isEmpty = false := by
    cases name with
    | nil => exact absurd rfl hne
    | cons c t => rfl
  simp only [List.nil_append, this, Bool.false_eq_true, ↓reduceIte]
  apply EvR.getMark_bind
  exact Or.inr ⟨_, u2, rfl, rfl, rfl, rfl, h2⟩

end SaphyrModel.C03A
