import SaphyrModel.Proofs.BlockLit
/-! C14, function level: the content lines of a literal block scalar are read the same whatever line break
ends each of them — a line feed, CR LF or a lone CR, chosen independently per line. The decoded text has line
feeds only, and the scanner ends on the same line and in the same column. Only the character index differs. -/
set_option linter.unusedSimpArgs false
namespace SaphyrModel.C14L
open SaphyrModel SaphyrModel.Sc SaphyrModel.C10 SaphyrModel.C05

/-- the three spellings of a line break -/
inductive Brk | lf | crlf | cr
deriving Repr, DecidableEq

def Brk.txt : Brk → Str
  | .lf => ['\n'] | .crlf => ['\r', '\n'] | .cr => ['\r']

/-- the state after the break `b` was consumed: next line, column 0; the index moved by the length of `b` -/
def nlB (s : Sc) (b : Brk) (r : Str) : Sc :=
  { s with
    inp := { s.inp with iter := r }
    mark := ⟨s.mark.index + b.txt.length, s.mark.line + 1, 0⟩
    leadingWhitespace := true }

/-- `read_break` on any of the three spellings: one `'\n'`, next line, column 0 (a lone CR is one that is not
    followed by a line feed) -/
theorem readBreak_brk (acc : Str) (s : Sc) (hk : s.inp.kind = .str) (b : Brk) (r : Str)
    (hi : s.inp.iter = b.txt ++ r) (hcr : r.headD '\x00' ≠ '\n') :
    readBreak acc s = .ok (acc ++ ['\n'], nlB s b r) := by
  cases b with
  | lf =>
    simp [readBreak, skipBreak, Bind.bind, peek_str_eval s hk, Sc.peekNth, Sc.liftI, In.peekNth, hk, hi, skipNl, In.skip,
      modS, Pure.pure, nlB, Brk.txt]
  | crlf =>
    simp [readBreak, skipBreak, Bind.bind, peek_str_eval s hk, Sc.peekNth, Sc.liftI, In.peekNth, hk, hi, skipNl, In.skip,
      modS, Pure.pure, nlB, Brk.txt, skipBlank, advance, Nat.add_assoc]
  | cr =>
    have h2 : (r.getD 0 '\x00' == '\n') = false := by
      cases r with
      | nil => decide
      | cons c t => simpa using hcr
    cases r with
    | nil =>
      simp [readBreak, skipBreak, Bind.bind, peek_str_eval s hk, Sc.peekNth, Sc.liftI, In.peekNth, hk, hi, skipNl, In.skip,
        modS, Pure.pure, nlB, Brk.txt]
    | cons c t =>
      have hc : (c == '\n') = false := by simpa using hcr
      simp [readBreak, skipBreak, Bind.bind, peek_str_eval s hk, Sc.peekNth, Sc.liftI, In.peekNth, hk, hi, skipNl, In.skip,
        modS, Pure.pure, nlB, Brk.txt, hc]

/-- every spelling starts with a break character that is not NUL -/
theorem brk_head (b : Brk) (R : Str) : ∃ c r, b.txt ++ R = c :: r ∧ isBreak c = true ∧ isZ c = false := by
  cases b
  · exact ⟨'\n', R, rfl, by decide, by decide⟩
  · exact ⟨'\r', '\n' :: R, rfl, by decide, by decide⟩
  · exact ⟨'\r', R, rfl, by decide, by decide⟩

/-- the text of the remaining lines, each indented by `ind` spaces and ended by its own break, then `tail` -/
def restLinesB (ind : Nat) : List (Str × Brk) → Str → Str
  | [], tail => tail
  | (l, b) :: ls, tail => List.replicate ind ' ' ++ (l ++ (b.txt ++ restLinesB ind ls tail))

theorem takeWhile_goodB : ∀ (l : Str) (b : Brk) (R : Str), (∀ c ∈ l, nb c = true) →
    (l ++ (b.txt ++ R)).takeWhile nb = l ∧ (l ++ (b.txt ++ R)).dropWhile nb = b.txt ++ R := by
  intro l
  induction l with
  | nil => intro b R _; cases b <;> simp [nb, isBreakz, isBreak, Brk.txt]
  | cons c t ih =>
    intro b R h
    have hc : nb c = true := h c (by simp)
    obtain ⟨h1, h2⟩ := ih b R (fun x hx => h x (by simp [hx]))
    simp [List.takeWhile_cons, List.dropWhile_cons, hc, h1, h2]

/-- what follows a break in these texts never starts with a line feed -/
theorem rest_head (ind : Nat) (hind : ind ≠ 0) (tail : Str) (ht2 : isBreak (tail.headD '\x00') = false) :
    ∀ ls : List (Str × Brk), (restLinesB ind ls tail).headD '\x00' ≠ '\n' := by
  intro ls
  cases ls with
  | nil =>
    intro h
    simp only [restLinesB] at h
    rw [h] at ht2
    exact absurd ht2 (by decide)
  | cons p ls' =>
    obtain ⟨l, b⟩ := p
    cases ind with
    | zero => exact absurd rfl hind
    | succ n => simp [restLinesB, List.replicate_succ]

/-- lines joined by line feeds (as `C05.joinLines`, over lines paired with their breaks) -/
def joinB (l : Str) (ls : List (Str × Brk)) : Str := joinLines l (ls.map Prod.fst)

/-- **The content lines of a literal block scalar do not depend on how their line breaks are spelt.** On a
    string input at the start of a content line (column = content indentation `ind ≥ 1`), in front of that line
    and any number of further lines — each indented by `ind` spaces and ended by a line feed, CR LF or a lone CR,
    chosen line by line — followed by text that does not start with a space or a break, the content loop returns
    the lines joined by *line feeds*, with one pending line feed, and stops in column 0 in front of that text,
    `1 + ls.length` lines further down. Nothing in the result mentions the breaks `b`, `ls[i].2`. -/
theorem literal_lines_any_break (ind : Nat) (hind : ind ≠ 0) (tail : Str) (ht1 : tail.headD '\x00' ≠ ' ')
    (ht2 : isBreak (tail.headD '\x00') = false) :
    ∀ (ls : List (Str × Brk)) (l : Str) (b : Brk) (a : BlkAcc) (s : Sc) (fuel : Nat), GoodLine l → (∀ p ∈ ls, GoodLine p.1) →
      s.inp.kind = .str → s.mark.col = ind → s.inp.iter = l ++ (b.txt ++ restLinesB ind ls tail) →
      (∃ p, blockScalarLines true ind fuel a s = .panic p) ∨
      ∃ s' bl, blockScalarLines true ind fuel a s =
          .ok (⟨a.str ++ a.leadingBreak ++ a.trailingBreaks ++ joinB l ls, ['\n'], [], bl⟩, s') ∧
        s'.inp.kind = .str ∧ s'.inp.iter = tail ∧ s'.mark.col = 0 ∧ s'.mark.line = s.mark.line + ls.length + 1 ∧
        s'.mark.index + tail.length = s.mark.index + s.inp.iter.length := by
  intro ls
  induction ls with
  | nil =>
    intro l b a s fuel hl _ hk hcol hi
    generalize hT : s.mark.index + s.inp.iter.length = T
    cases fuel with
    | zero => left; exact ⟨_, rfl⟩
    | succ f =>
      obtain ⟨c0, l0, rfl⟩ : ∃ c0 l0, l = c0 :: l0 := by
        cases l with
        | nil => exact absurd rfl hl.1
        | cons c t => exact ⟨c, t, rfl⟩
      have hc0 := nb_not_break (hl.2 c0 (by simp))
      rw [bsl_step ind f hind]
      have h1 : (s.mark.col != ind) = false := by simp [hcol]
      simp only [h1, Bool.false_eq_true, ↓reduceIte]
      rw [show In.nextIsZ = In.nextIs isZ true from rfl, nextIs_str_eval _ _ s hk, hi]
      simp only [List.cons_append, hc0.2, Bool.false_eq_true, ↓reduceIte]
      rw [show In.nextIsBlank = In.nextIs isBlank false from rfl, nextIs_str_eval _ _ s hk, hi]
      simp only [List.cons_append, nextIs_str_eval _ _ s hk, hi]
      obtain ⟨htw, hdw⟩ := takeWhile_goodB (c0 :: l0) b (restLinesB ind [] tail) hl.2
      rcases line_str (a.str ++ a.leadingBreak ++ a.trailingBreaks) s hk with ⟨p, hp⟩ | hline
      · left; rw [hp]; exact ⟨p, rfl⟩
      · rw [hi, htw, hdw] at hline
        rw [hline]
        simp only
        have hk4 : (advS s (c0 :: l0).length { s.inp with iter := b.txt ++ restLinesB ind [] tail }).inp.kind = .str := hk
        rw [lookahead_str_eval _ _ hk4]
        simp only
        generalize hs5 : ({ (advS s (c0 :: l0).length { s.inp with iter := b.txt ++ restLinesB ind [] tail }) with
          inp := { (advS s (c0 :: l0).length { s.inp with iter := b.txt ++ restLinesB ind [] tail }).inp with
            la := max (advS s (c0 :: l0).length { s.inp with iter := b.txt ++ restLinesB ind [] tail }).inp.la 2 } } : Sc) = s5
        have hk5 : s5.inp.kind = .str := by rw [← hs5]; exact hk
        have hi5 : s5.inp.iter = b.txt ++ restLinesB ind [] tail := by rw [← hs5]; rfl
        have hl5 : s5.mark.line = s.mark.line := by rw [← hs5]; rfl
        have hx5 : s5.mark.index = s.mark.index + (c0 :: l0).length := by rw [← hs5]; rfl
        obtain ⟨cb, rb, hbr, hcb1, hcb2⟩ := brk_head b (restLinesB ind [] tail)
        rw [nextIs_str_eval _ _ s5 hk5, hi5, hbr]
        simp only [hcb2, Bool.false_eq_true, ↓reduceIte]
        rw [readBreak_brk [] s5 hk5 b _ hi5 (rest_head ind hind tail ht2 [])]
        simp only [List.nil_append]
        have hk7 : (nlB s5 b (restLinesB ind [] tail)).inp.kind = .str := hk5
        have hc7 : (nlB s5 b (restLinesB ind [] tail)).mark.col = 0 := rfl
        have hi7 : (nlB s5 b (restLinesB ind [] tail)).inp.iter = List.replicate 0 ' ' ++ tail := rfl
        rw [show (nlB s5 b (restLinesB ind [] tail)).inp.remaining + 2 = ((nlB s5 b (restLinesB ind [] tail)).inp.remaining + 1) + 1 by omega]
        rcases indent_str_eval ind _ 0 (nlB s5 b (restLinesB ind [] tail)) tail hk7 hc7 hi7 (by omega) (Or.inr ht1) ht2 with
          ⟨p, hp⟩ | ⟨la', hind2⟩
        · left; rw [hp]; exact ⟨p, rfl⟩
        · rw [hind2]
          simp only
          cases f with
          | zero => left; exact ⟨_, rfl⟩
          | succ f' =>
            right
            rw [bsl_step ind f' hind]
            have h2 : ((advS (nlB s5 b (restLinesB ind [] tail)) 0 { (nlB s5 b (restLinesB ind [] tail)).inp with iter := tail, la := la' }).mark.col != ind) = true := by
              show ((0 + 0 : Nat) != ind) = true
              simp; omega
            simp only [h2, ↓reduceIte]
            refine ⟨_, _, rfl, hk5, rfl, rfl, ?_, ?_⟩
            · show s5.mark.line + 1 = s.mark.line + 0 + 1
              rw [hl5]
            · show s5.mark.index + b.txt.length + 0 + tail.length = _
              rw [hx5, ← hT, hi]
              simp only [List.length_append, restLinesB]
              omega
  | cons p' ls' ih =>
    obtain ⟨l', b'⟩ := p'
    intro l b a s fuel hl hls hk hcol hi
    generalize hT : s.mark.index + s.inp.iter.length = T
    cases fuel with
    | zero => left; exact ⟨_, rfl⟩
    | succ f =>
      obtain ⟨c0, l0, rfl⟩ : ∃ c0 l0, l = c0 :: l0 := by
        cases l with
        | nil => exact absurd rfl hl.1
        | cons c t => exact ⟨c, t, rfl⟩
      have hc0 := nb_not_break (hl.2 c0 (by simp))
      have hl' : GoodLine l' := hls (l', b') (by simp)
      obtain ⟨c1, l1, rfl⟩ : ∃ c1 l1, l' = c1 :: l1 := by
        cases l' with
        | nil => exact absurd rfl hl'.1
        | cons c t => exact ⟨c, t, rfl⟩
      have hc1 := nb_not_break (hl'.2 c1 (by simp))
      rw [bsl_step ind f hind]
      have h1 : (s.mark.col != ind) = false := by simp [hcol]
      simp only [h1, Bool.false_eq_true, ↓reduceIte]
      rw [show In.nextIsZ = In.nextIs isZ true from rfl, nextIs_str_eval _ _ s hk, hi]
      simp only [List.cons_append, hc0.2, Bool.false_eq_true, ↓reduceIte]
      rw [show In.nextIsBlank = In.nextIs isBlank false from rfl, nextIs_str_eval _ _ s hk, hi]
      simp only [List.cons_append, nextIs_str_eval _ _ s hk, hi]
      obtain ⟨htw, hdw⟩ := takeWhile_goodB (c0 :: l0) b (restLinesB ind ((c1 :: l1, b') :: ls') tail) hl.2
      rcases line_str (a.str ++ a.leadingBreak ++ a.trailingBreaks) s hk with ⟨p, hp⟩ | hline
      · left; rw [hp]; exact ⟨p, rfl⟩
      · rw [hi, htw, hdw] at hline
        rw [hline]
        simp only
        generalize hR : restLinesB ind ((c1 :: l1, b') :: ls') tail = R at *
        have hk4 : (advS s (c0 :: l0).length { s.inp with iter := b.txt ++ R }).inp.kind = .str := hk
        rw [lookahead_str_eval _ _ hk4]
        simp only
        generalize hs5 : ({ (advS s (c0 :: l0).length { s.inp with iter := b.txt ++ R }) with
          inp := { (advS s (c0 :: l0).length { s.inp with iter := b.txt ++ R }).inp with
            la := max (advS s (c0 :: l0).length { s.inp with iter := b.txt ++ R }).inp.la 2 } } : Sc) = s5
        have hk5 : s5.inp.kind = .str := by rw [← hs5]; exact hk
        have hi5 : s5.inp.iter = b.txt ++ R := by rw [← hs5]; rfl
        have hl5 : s5.mark.line = s.mark.line := by rw [← hs5]; rfl
        have hx5 : s5.mark.index = s.mark.index + (c0 :: l0).length := by rw [← hs5]; rfl
        obtain ⟨cb, rb, hbr, hcb1, hcb2⟩ := brk_head b R
        rw [nextIs_str_eval _ _ s5 hk5, hi5, hbr]
        simp only [hcb2, Bool.false_eq_true, ↓reduceIte]
        have hRh : R.headD '\x00' ≠ '\n' := by rw [← hR]; exact rest_head ind hind tail ht2 _
        rw [readBreak_brk [] s5 hk5 b _ hi5 hRh]
        simp only [List.nil_append]
        have hk7 : (nlB s5 b R).inp.kind = .str := hk5
        have hc7 : (nlB s5 b R).mark.col = 0 := rfl
        have hi7 : (nlB s5 b R).inp.iter
            = List.replicate ind ' ' ++ ((c1 :: l1) ++ (b'.txt ++ restLinesB ind ls' tail)) := by
          show R = _
          rw [← hR]; rfl
        rw [show (nlB s5 b R).inp.remaining + 2 = ((nlB s5 b R).inp.remaining + 1) + 1 by omega]
        rcases indent_str_eval ind _ ind (nlB s5 b R) _ hk7 hc7 hi7 (Nat.le_refl _)
            (Or.inl rfl) (by simpa using hc1.1) with ⟨p, hp⟩ | ⟨la', hind2⟩
        · left; rw [hp]; exact ⟨p, rfl⟩
        · rw [hind2]
          simp only
          have hk8 : (advS (nlB s5 b R) ind
              { (nlB s5 b R).inp with iter := (c1 :: l1) ++ (b'.txt ++ restLinesB ind ls' tail), la := la' }).inp.kind = .str := hk5
          have hc8 : (advS (nlB s5 b R) ind
              { (nlB s5 b R).inp with iter := (c1 :: l1) ++ (b'.txt ++ restLinesB ind ls' tail), la := la' }).mark.col = ind := by
            show 0 + ind = ind; omega
          rcases ih (c1 :: l1) b' ⟨a.str ++ a.leadingBreak ++ a.trailingBreaks ++ (c0 :: l0), ['\n'], [], isBlank c0⟩ _ f hl'
              (fun x hx => hls x (by simp [hx])) hk8 hc8 rfl with ⟨p, hp⟩ | ⟨s', bl, hok, hks, his, hcs, hls', hxs'⟩
          · left; exact ⟨p, hp⟩
          · right
            refine ⟨s', bl, ?_, hks, his, hcs, ?_, ?_⟩
            · rw [hok]
              simp [joinB, joinLines, List.append_assoc]
            · rw [hls']
              show s5.mark.line + 1 + ls'.length + 1 = s.mark.line + (ls'.length + 1) + 1
              rw [hl5]; omega
            · rw [hxs']
              show s5.mark.index + b.txt.length + ind + ((c1 :: l1) ++ (b'.txt ++ restLinesB ind ls' tail)).length = _
              have hRl : R.length = ind + ((c1 :: l1) ++ (b'.txt ++ restLinesB ind ls' tail)).length := by
                have := congrArg List.length hi7
                simpa [List.length_append, List.length_replicate, nlB] using this
              rw [hx5, ← hT, hi]
              simp only [List.length_append] at hRl ⊢
              omega

/-- the joined lines contain no carriage return: every break in the decoded text is a line feed -/
theorem joinLines_no_cr : ∀ (ls : List Str) (l : Str), (∀ c ∈ l, nb c = true) → (∀ l' ∈ ls, ∀ c ∈ l', nb c = true) →
    ∀ c ∈ joinLines l ls, c ≠ '\r' := by
  intro ls
  induction ls with
  | nil =>
    intro l hl _ c hc
    simp only [joinLines] at hc
    have := (nb_not_break (hl c hc)).1
    intro h; rw [h] at this; exact absurd this (by decide)
  | cons l' ls' ih =>
    intro l hl hls c hc
    simp only [joinLines, List.mem_append, List.mem_cons] at hc
    rcases hc with hc | hc | hc
    · have := (nb_not_break (hl c hc)).1
      intro h; rw [h] at this; exact absurd this (by decide)
    · rw [hc]; decide
    · exact ih l' (hls l' (by simp)) (fun x hx => hls x (by simp [hx])) c hc

end SaphyrModel.C14L
