import SaphyrModel.Proofs.IntParse
/-! Float parsing: the model of `parse_f64` (loader.rs) + the grammar of `f64::from_str` against the
core-schema float recogniser (used by Props/C08). -/
namespace SaphyrModel.FloatParse
open ProtoR SaphyrModel.Spec SaphyrModel.IntParse

theorem isDig_eq_isDec : isDig = isDec := rfl

/-- the code points `parse_f64` lets through -/
theorem floatByte_iff (c : Char) : floatByte c = true ↔
    (48 ≤ c.toNat ∧ c.toNat ≤ 57) ∨ c.toNat = 43 ∨ c.toNat = 45 ∨ c.toNat = 46 ∨ c.toNat = 101 ∨ c.toNat = 69 := by
  unfold floatByte
  simp only [Bool.or_eq_true, Bool.and_eq_true, decide_eq_true_eq, beq_iff_eq, char_le_iff]
  have h0 : ('0' : Char).toNat = 48 := by decide
  have h9 : ('9' : Char).toNat = 57 := by decide
  rw [h0, h9]
  have key : ∀ (d : Char), c = d ↔ c.toNat = d.toNat := by
    intro d; constructor
    · intro h; rw [h]
    · intro h; exact Char.toNat_inj.mp h
  rw [key '+', key '-', key '.', key 'e', key 'E']
  have e1 : ('+' : Char).toNat = 43 := by decide
  have e2 : ('-' : Char).toNat = 45 := by decide
  have e3 : ('.' : Char).toNat = 46 := by decide
  have e4 : ('e' : Char).toNat = 101 := by decide
  have e5 : ('E' : Char).toNat = 69 := by decide
  rw [e1, e2, e3, e4, e5]
  constructor
  · rintro (((((h | h) | h) | h) | h) | h) <;> simp [h]
  · rintro (h | h | h | h | h | h) <;> simp [h]

theorem char_of_toNat {c : Char} {n : Nat} (h : c.toNat = n) : c = Char.ofNat n := by
  rw [← h, Char.ofNat_toNat]

/-- lower-casing a float byte never produces one of the letters i, n -/
theorem lower_floatByte (c : Char) (h : floatByte c = true) : c.toLower ≠ 'i' ∧ c.toLower ≠ 'n' := by
  rcases (floatByte_iff c).1 h with ⟨h1, h2⟩ | h | h | h | h | h
  · have : c.toNat = 48 ∨ c.toNat = 49 ∨ c.toNat = 50 ∨ c.toNat = 51 ∨ c.toNat = 52 ∨ c.toNat = 53 ∨ c.toNat = 54 ∨
        c.toNat = 55 ∨ c.toNat = 56 ∨ c.toNat = 57 := by omega
    rcases this with h | h | h | h | h | h | h | h | h | h <;> (rw [char_of_toNat h]; decide)
  all_goals (rw [char_of_toNat h]; decide)

theorem lower_not_word (r : Str) (h : r.all floatByte = true) :
    lower r ≠ "inf".toList ∧ lower r ≠ "infinity".toList ∧ lower r ≠ "nan".toList := by
  cases r with
  | nil => refine ⟨?_, ?_, ?_⟩ <;> decide
  | cons c t =>
    have hc : floatByte c = true := by simp at h; exact h.1
    obtain ⟨hi, hn⟩ := lower_floatByte c hc
    refine ⟨?_, ?_, ?_⟩ <;> intro he <;> simp only [lower, List.map_cons] at he
    · have : c.toLower = 'i' := by
        have := congrArg List.head? he; simpa using this
      exact hi this
    · have : c.toLower = 'i' := by
        have := congrArg List.head? he; simpa using this
      exact hi this
    · have : c.toLower = 'n' := by
        have := congrArg List.head? he; simpa using this
      exact hn this

/-- on decimal digits the two value functions agree -/
theorem natOfDigits_eq (ds : Str) (h : ds.all isDec = true) : natOfDigits ds = valBase 10 ds := by
  unfold natOfDigits valBase
  suffices ∀ acc, ds.foldl (fun v c => v * 10 + (c.toNat - '0'.toNat)) acc = ds.foldl (fun v c => v * 10 + hexDigVal c) acc from this 0
  induction ds with
  | nil => intro acc; rfl
  | cons c r ih =>
    intro acc
    simp only [List.all_cons, Bool.and_eq_true] at h
    simp only [List.foldl_cons]
    have : hexDigVal c = c.toNat - '0'.toNat := by
      rw [hexDigVal_spec, if_pos ((isDec_iff c).1 h.1)]; rfl
    rw [this]
    exact ih h.2 _

theorem takeWhile_all (p : Char → Bool) (l : Str) : (l.takeWhile p).all p = true := by
  induction l with
  | nil => rfl
  | cons c r ih =>
    simp only [List.takeWhile]
    split
    · simp [*]
    · rfl

end SaphyrModel.FloatParse

namespace SaphyrModel.FloatParse
open ProtoR SaphyrModel.Spec SaphyrModel.IntParse

theorem splitSign_eq (s : Str) : splitSign s = optSign s := by
  unfold splitSign optSign
  split <;> split <;> simp_all

/-- `f64Body` after the integer digits -/
def f64Tail (neg : Bool) (ip r1 : Str) : Option FloatDen :=
  let fr : Str × Str := match r1 with
    | '.' :: t => (t.takeWhile isDig, t.dropWhile isDig)
    | t => ([], t)
  if ip.isEmpty ∧ fr.1.isEmpty then none
  else
    let mant := natOfDigits (ip ++ fr.1)
    let baseExp : Int := -(fr.1.length : Int)
    match fr.2 with
    | [] => some (.fin neg mant baseExp)
    | e :: t =>
      if e = 'e' ∨ e = 'E' then
        let ex := splitSign t
        if ex.2.isEmpty ∨ !ex.2.all isDig then none
        else
          let ev : Int := natOfDigits ex.2
          some (.fin neg mant (baseExp + (if ex.1 then -ev else ev)))
      else none

/-- `decBody` after the integer digits -/
def decTail (neg : Bool) (ip r1 : Str) : Option FloatDen :=
  let mant? : Option (Str × Str × Str) :=
    match r1 with
    | '.' :: t =>
      let fp := t.takeWhile isDec
      if ip.isEmpty && fp.isEmpty then none else some (ip, fp, t.dropWhile isDec)
    | t => if ip.isEmpty then none else some (ip, [], t)
  match mant? with
  | none => none
  | some (ip, fp, r2) =>
    let m := valBase 10 (ip ++ fp)
    let e0 : Int := -(fp.length : Int)
    match r2 with
    | [] => some (.fin neg m e0)
    | e :: t =>
      if e == 'e' || e == 'E' then
        let ex := optSign t
        if !ex.2.isEmpty && ex.2.all isDec then
          let ev : Int := valBase 10 ex.2
          some (.fin neg m (e0 + (if ex.1 then -ev else ev)))
        else none
      else none

theorem f64Body_tail (neg : Bool) (r : Str) : f64Body neg r = f64Tail neg (r.takeWhile isDig) (r.dropWhile isDig) := rfl
theorem decBody_tail (neg : Bool) (r : Str) : decBody neg r = decTail neg (r.takeWhile isDec) (r.dropWhile isDec) := rfl

/-- the exponent part -/
theorem exp_eq (neg : Bool) (m : Nat) (e0 : Int) (t : Str) :
    (let ex := splitSign t
     if ex.2.isEmpty ∨ !ex.2.all isDig then none
     else
       let ev : Int := natOfDigits ex.2
       some (FloatDen.fin neg m (e0 + (if ex.1 then -ev else ev))))
    = (let ex := optSign t
       if !ex.2.isEmpty && ex.2.all isDec then
         let ev : Int := valBase 10 ex.2
         some (FloatDen.fin neg m (e0 + (if ex.1 then -ev else ev)))
       else none) := by
  rw [splitSign_eq]
  simp only
  have hd : ∀ l : Str, l.all isDig = l.all isDec := fun _ => rfl
  by_cases hok : (!(optSign t).2.isEmpty && (optSign t).2.all isDec) = true
  · have hall : (optSign t).2.all isDec = true := by simp only [Bool.and_eq_true] at hok; exact hok.2
    have hne : (optSign t).2.isEmpty = false := by
      simp only [Bool.and_eq_true, Bool.not_eq_true'] at hok; exact hok.1
    have h1 : ¬ ((optSign t).2.isEmpty = true ∨ (!(optSign t).2.all isDig) = true) := by
      rw [hne, hd, hall]; simp
    rw [if_neg h1, if_pos hok, natOfDigits_eq _ hall]
  · have h1 : ((optSign t).2.isEmpty = true ∨ (!(optSign t).2.all isDig) = true) := by
      by_cases he : (optSign t).2.isEmpty = true
      · exact Or.inl he
      · right
        have he' : (optSign t).2.isEmpty = false := by simpa using he
        rw [he'] at hok
        simp only [Bool.not_false, Bool.true_and, Bool.not_eq_true] at hok
        rw [hd, hok]; rfl
    rw [if_pos h1, if_neg hok]

theorem tail_eq (neg : Bool) (ip r1 : Str) (hip : ip.all isDec = true) : f64Tail neg ip r1 = decTail neg ip r1 := by
  unfold f64Tail decTail
  rw [isDig_eq_isDec]
  -- the part after the fraction
  have hrest : ∀ (fp r2 : Str), fp.all isDec = true →
      (match r2 with
        | [] => some (FloatDen.fin neg (natOfDigits (ip ++ fp)) (-(fp.length : Int)))
        | e :: t =>
          if e = 'e' ∨ e = 'E' then
            (let ex := splitSign t
             if ex.2.isEmpty ∨ !ex.2.all isDec then none
             else
               let ev : Int := natOfDigits ex.2
               some (FloatDen.fin neg (natOfDigits (ip ++ fp)) (-(fp.length : Int) + (if ex.1 then -ev else ev))))
          else none) =
      (match r2 with
        | [] => some (FloatDen.fin neg (valBase 10 (ip ++ fp)) (-(fp.length : Int)))
        | e :: t =>
          if (e == 'e' || e == 'E') = true then
            (let ex := optSign t
             if !ex.2.isEmpty && ex.2.all isDec then
               let ev : Int := valBase 10 ex.2
               some (FloatDen.fin neg (valBase 10 (ip ++ fp)) (-(fp.length : Int) + (if ex.1 then -ev else ev)))
             else none)
          else none) := by
    intro fp r2 hfp
    have hall : (ip ++ fp).all isDec = true := by simp only [List.all_append, hip, hfp, Bool.and_self]
    rw [natOfDigits_eq _ hall]
    cases r2 with
    | nil => rfl
    | cons e t =>
      simp only
      by_cases he : e = 'e' ∨ e = 'E'
      · have hbe : (e == 'e' || e == 'E') = true := by rcases he with h | h <;> simp [h]
        rw [if_pos he, if_pos hbe]
        have := exp_eq neg (valBase 10 (ip ++ fp)) (-(fp.length : Int)) t
        rw [isDig_eq_isDec] at this
        exact this
      · have hbe : ¬ (e == 'e' || e == 'E') = true := by
          simp only [not_or] at he; simp [he.1, he.2]
        rw [if_neg he, if_neg hbe]
  cases r1 with
  | nil =>
    simp only
    by_cases hie : ip.isEmpty = true
    · simp [hie]
    · simp only [hie, false_and, ↓reduceIte, Bool.false_eq_true]
      exact hrest [] [] rfl
  | cons c t =>
    by_cases hc : c = '.'
    · subst hc
      simp only
      have hfp : (t.takeWhile isDec).all isDec = true := takeWhile_all isDec t
      by_cases hie : ip.isEmpty = true ∧ (t.takeWhile isDec).isEmpty = true
      · simp [hie.1, hie.2]
      · have hb : (ip.isEmpty && (t.takeWhile isDec).isEmpty) = false := by
          cases h1 : ip.isEmpty <;> cases h2 : (t.takeWhile isDec).isEmpty <;> simp_all
        simp only [hie, ↓reduceIte, hb, Bool.false_eq_true]
        exact hrest _ _ hfp
    · split
      · rename_i t' heq; simp only [List.cons.injEq] at heq; exact absurd heq.1 hc
      · by_cases hie : ip.isEmpty = true
        · simp [hie]
        · simp only [hie, false_and, ↓reduceIte, Bool.false_eq_true]
          exact hrest [] (c :: t) rfl

/-- the decimal grammar of `f64::from_str` is the core schema's, value for value -/
theorem f64Body_eq (neg : Bool) (r : Str) : f64Body neg r = decBody neg r := by
  rw [f64Body_tail, decBody_tail, isDig_eq_isDec]
  exact tail_eq neg _ _ (takeWhile_all isDec r)

/-- on the bytes `parse_f64` lets through, `f64::from_str` accepts exactly the schema's decimal floats -/
theorem parseF64_eq_core (s : Str) (h : s.all floatByte = true) : parseF64 s = coreDecFloat s := by
  unfold parseF64 coreDecFloat
  have hr : (splitSign s).2.all floatByte = true := by
    unfold splitSign; split
    · simp only [List.all_cons, Bool.and_eq_true] at h; exact h.2
    · simp only [List.all_cons, Bool.and_eq_true] at h; exact h.2
    · exact h
  obtain ⟨h1, h2, h3⟩ := lower_not_word _ hr
  simp only [h1, h2, h3, or_self, ↓reduceIte]
  rw [f64Body_eq, splitSign_eq]

end SaphyrModel.FloatParse

namespace SaphyrModel.FloatParse
open ProtoR SaphyrModel.Spec SaphyrModel.IntParse

/-- `parse_f64` accepts only core-schema floats, with the schema's value -/
theorem parseF64Yaml_sound (v : Str) (f : FloatDen) (h : parseF64Yaml v = some f) : coreFloat v = some f := by
  unfold parseF64Yaml at h
  unfold coreFloat
  simp only at h ⊢
  split at h
  · rename_i hs
    simp only [Option.some.injEq] at h; subst h
    have : (String.ofList v == ".inf" || String.ofList v == ".Inf" || String.ofList v == ".INF" ||
        String.ofList v == "+.inf" || String.ofList v == "+.Inf" || String.ofList v == "+.INF") = true := by
      rcases hs with h | h | h | h | h | h <;> simp [h]
    rw [if_pos this]
  · rename_i hs1
    have n1 : (String.ofList v == ".inf" || String.ofList v == ".Inf" || String.ofList v == ".INF" ||
        String.ofList v == "+.inf" || String.ofList v == "+.Inf" || String.ofList v == "+.INF") = false := by
      simp only [not_or] at hs1
      simp [hs1.1, hs1.2.1, hs1.2.2.1, hs1.2.2.2.1, hs1.2.2.2.2.1, hs1.2.2.2.2.2]
    rw [if_neg (by rw [n1]; simp)]
    split at h
    · rename_i hs
      simp only [Option.some.injEq] at h; subst h
      have : (String.ofList v == "-.inf" || String.ofList v == "-.Inf" || String.ofList v == "-.INF") = true := by
        rcases hs with h | h | h <;> simp [h]
      rw [if_pos this]
    · rename_i hs2
      have n2 : (String.ofList v == "-.inf" || String.ofList v == "-.Inf" || String.ofList v == "-.INF") = false := by
        simp only [not_or] at hs2
        simp [hs2.1, hs2.2.1, hs2.2.2]
      rw [if_neg (by rw [n2]; simp)]
      split at h
      · rename_i hs
        simp only [Option.some.injEq] at h; subst h
        have : (String.ofList v == ".nan" || String.ofList v == ".NaN" || String.ofList v == ".NAN") = true := by
          rcases hs with h | h | h <;> simp [h]
        rw [if_pos this]
      · rename_i hs3
        have n3 : (String.ofList v == ".nan" || String.ofList v == ".NaN" || String.ofList v == ".NAN") = false := by
          simp only [not_or] at hs3
          simp [hs3.1, hs3.2.1, hs3.2.2]
        rw [if_neg (by rw [n3]; simp)]
        split at h
        · rename_i hall
          rw [← parseF64_eq_core v hall]; exact h
        · simp at h

/-- the resolver returns a float only through `parse_f64` -/
theorem float_shape (v : Str) (f : FloatDen) (h : parseFromCow v = .float f) : parseF64Yaml v = some f := by
  unfold parseFromCow at h
  simp only at h
  split at h
  · rename_i r hr
    exfalso
    repeat' (first
      | (obtain ⟨i, hi⟩ := C09.map_int_is_int hr; rw [hi] at h; cases h; done)
      | (simp_all; done)
      | split at hr)
  · repeat' (first | (simp_all; done) | split at h)

end SaphyrModel.FloatParse
