import SaphyrModel.Api
/-! Termination of the parser's state machine: a potential that every step decreases
(used by Props/C01: the iterator needs at most `16·|tokens| + 6` steps). -/
namespace SaphyrModel

/-- type of the next token -/
def hdTy (p : PState) : Option TokenType := p.toks.head?.map (·.ty)

/-- rank of a state in front of a given next token: how many steps it can take without consuming -/
def rk : State → Option TokenType → Nat
  | .end, _ => 0
  | .streamStart, _ => 1
  | .implicitDocumentStart, _ => 5
  | .documentStart, _ => 1
  | .documentEnd, _ => 2
  | .documentContent, _ => 2
  | .blockNode, _ => 2
  | .blockMappingKey, some .value => 2
  | .blockMappingKey, _ => 1
  | .blockMappingValue, some .value => 1
  | .blockMappingValue, _ => 2
  | .flowMappingValue, _ => 2
  | .flowMappingEmptyValue, _ => 2
  | .flowSequenceEntryMappingKey, _ => 5
  | .flowSequenceEntryMappingValue, _ => 3
  | .flowSequenceEntryMappingEnd _, _ => 2
  | _, _ => 1

/-- rank of a state waiting on the stack: the most it can need when it becomes current -/
def rs : State → Nat
  | .end => 0
  | .implicitDocumentStart | .flowSequenceEntryMappingKey => 5
  | .flowSequenceEntryMappingValue => 3
  | .documentEnd | .documentContent | .blockNode | .blockMappingKey | .blockMappingValue
  | .flowMappingValue | .flowMappingEmptyValue | .flowSequenceEntryMappingEnd _ => 2
  | _ => 1

theorem rk_le_rs (s : State) (h : Option TokenType) : rk s h ≤ rs s := by
  cases s <;> (try (simp [rk, rs]; done)) <;> (rcases h with _ | t) <;> (try cases t) <;> simp [rk, rs]
theorem rs_le (s : State) : rs s ≤ 5 := by cases s <;> simp [rs]
theorem rk_le (s : State) (h : Option TokenType) : rk s h ≤ 5 := Nat.le_trans (rk_le_rs s h) (rs_le s)

/-- weight of the tokens still to read and of the states waiting on the stack -/
def wt (p : PState) : Nat := 16 * p.toks.length + (p.states.map rs).sum
/-- the potential -/
def phi (p : PState) : Nat := wt p + rk p.state (hdTy p)

theorem phi_le (p : PState) : phi p ≤ wt p + 5 := by unfold phi; have := rk_le p.state (hdTy p); omega

/-- the step's outcome stays below `b` -/
def Below (b : Nat) (r : Res Out) : Prop :=
  match r with
  | .ok (_, _, p') => phi p' < b
  | _ => True

theorem Below_bind {α} {b : Nat} {m : Res α} {f : α → Res Out} (h : ∀ a, m = .ok a → Below b (f a)) :
    Below b (m >>= f) := by
  cases hm : m with
  | ok a => simpa [Bind.bind] using h a hm
  | err e => simp [Bind.bind, Below]
  | panic x => simp [Bind.bind, Below]

theorem Below_err {b : Nat} (e : ScanError) : Below b (.err e) := trivial

theorem peekTok_ok {p : PState} {t : Token} (h : peekTok p = .ok t) :
    1 ≤ p.toks.length ∧ hdTy p = some t.ty ∧ wt (skipTok p) + 16 = wt p := by
  unfold peekTok at h
  cases hp : p.toks with
  | nil => simp [hp] at h
  | cons a r =>
    simp only [hp, Res.ok.injEq] at h
    subst h
    simp [hdTy, hp, wt, skipTok]; omega

@[simp] theorem skipTok_state (p : PState) : (skipTok p).state = p.state := rfl
@[simp] theorem skipTok_states (p : PState) : (skipTok p).states = p.states := rfl
@[simp] theorem wt_setState (p : PState) (s : State) : wt { p with state := s } = wt p := rfl
@[simp] theorem wt_push (p : PState) (s : State) : wt (pushState p s) = wt p + rs s := by
  simp [wt, pushState]; omega
@[simp] theorem hdTy_setState (p : PState) (s : State) : hdTy { p with state := s } = hdTy p := rfl
@[simp] theorem hdTy_push (p : PState) (s : State) : hdTy (pushState p s) = hdTy p := rfl

theorem popState_ok {p q : PState} (h : popState p = .ok q) :
    wt q + rs q.state = wt p ∧ q.toks = p.toks := by
  unfold popState at h
  cases hs : p.states with
  | nil => simp [hs] at h
  | cons s ss =>
    simp only [hs, Res.ok.injEq] at h
    subst h
    simp [wt, hs]; omega

/-- after a pop, whatever the popped state is, its rank is covered by what it weighed on the stack -/
theorem pop_below {p q : PState} (h : popState p = .ok q) (f : PState → PState)
    (hf : ∀ x, wt (f x) ≤ wt x ∧ (f x).state = x.state) {b : Nat} (hb : wt p < b) : phi (f q) < b := by
  obtain ⟨h1, _⟩ := popState_ok h
  have h2 := hf q
  have h3 := rk_le_rs (f q).state (hdTy (f q))
  unfold phi
  rw [h2.2] at h3 ⊢
  omega

theorem wt_skipTok_le (p : PState) : wt (skipTok p) ≤ wt p := by
  simp only [wt, skipTok, List.length_tail]; omega

theorem pop_le {p q : PState} (h : popState p = .ok q) (f : PState → PState)
    (hf : ∀ x, wt (f x) ≤ wt x ∧ (f x).state = x.state) : phi (f q) ≤ wt p := by
  obtain ⟨h1, _⟩ := popState_ok h
  have h2 := hf q
  have h3 := rk_le_rs (f q).state (hdTy (f q))
  unfold phi
  rw [h2.2] at h3 ⊢
  omega

/-- what `parse_node` leaves behind weighs at most one more than the state it was called on -/
def NodeBound (q : PState) (r : Res Out) : Prop :=
  match r with
  | .ok (_, _, q') => phi q' ≤ wt q + 1
  | _ => True

theorem NodeBound_pop (q : PState) (ev : Event) (sp : Span) (f : PState → PState)
    (hf : ∀ x, wt (f x) ≤ wt x ∧ (f x).state = x.state) :
    NodeBound q (match popState q with
      | .ok p => .ok (ev, sp, f p)
      | .err e => .err e | .panic x => .panic x) := by
  cases h : popState q with
  | ok p => have := pop_le h f hf; simp only [NodeBound]; omega
  | err e => trivial
  | panic x => trivial

theorem parseNodeContent_bound (q : PState) (b i : Bool) (aid : Nat) (tag : Option Tag) :
    NodeBound q (parseNodeContent q b i aid tag) := by
  unfold parseNodeContent
  cases hp : peekTok q with
  | err e => trivial
  | panic x => trivial
  | ok t =>
    simp only
    have hid : ∀ x : PState, wt (id x) ≤ wt x ∧ (id x).state = x.state := fun x => ⟨Nat.le_refl _, rfl⟩
    have hsk : ∀ x : PState, wt (skipTok x) ≤ wt x ∧ (skipTok x).state = x.state := fun x => ⟨wt_skipTok_le x, rfl⟩
    repeat' (first
      | exact NodeBound_pop q _ _ id hid
      | exact NodeBound_pop q _ _ skipTok hsk
      | trivial
      | (simp only [NodeBound, phi, wt_setState, hdTy_setState, rk]; omega)
      | split)

theorem NodeBound_mono {q q2 : PState} {r : Res Out} (h : wt q2 ≤ wt q) (hb : NodeBound q2 r) : NodeBound q r := by
  cases r with
  | ok o => obtain ⟨e, sp, q'⟩ := o; simp only [NodeBound] at hb ⊢; omega
  | err e => trivial
  | panic x => trivial

theorem wt_registerAnchor (p : PState) (name : Str) : wt (registerAnchor p name).2 = wt p := rfl

theorem parseNode_bound (q : PState) (b i : Bool) : NodeBound q (parseNode q b i) := by
  unfold parseNode
  cases hp : peekTok q with
  | err e => trivial
  | panic x => trivial
  | ok t =>
    simp only
    have hc : ∀ (q2 : PState) aid tag, wt q2 ≤ wt q → NodeBound q (parseNodeContent q2 b i aid tag) :=
      fun q2 aid tag h => NodeBound_mono h (parseNodeContent_bound q2 b i aid tag)
    have h1 : wt (skipTok q) ≤ wt q := wt_skipTok_le q
    have h2 : wt (skipTok (skipTok q)) ≤ wt q := Nat.le_trans (wt_skipTok_le _) h1
    split
    · -- alias
      cases hpop : popState q with
      | err e => trivial
      | panic x => trivial
      | ok p =>
        simp only
        split
        · trivial
        · have := pop_le hpop skipTok (fun x => ⟨wt_skipTok_le x, rfl⟩)
          simp only [NodeBound]; omega
    · -- anchor
      split
      · trivial
      · trivial
      · split
        · split
          · trivial
          · trivial
          · exact hc _ _ _ (by simpa [wt_registerAnchor] using Nat.le_trans (wt_skipTok_le _) (by simpa [wt_registerAnchor] using h1))
        · exact hc _ _ _ (by simpa [wt_registerAnchor] using h1)
    · -- tag
      split
      · trivial
      · trivial
      · split
        · trivial
        · trivial
        · split
          · exact hc _ _ _ (by simpa [wt_registerAnchor] using h2)
          · exact hc _ _ _ h1
    · exact hc _ _ _ (Nat.le_refl _)

theorem node_below {q : PState} {b : Nat} (bl i : Bool) (h : wt q + 1 < b) : Below b (parseNode q bl i) := by
  have := parseNode_bound q bl i
  cases hr : parseNode q bl i with
  | ok o => obtain ⟨e, sp, q'⟩ := o; simp only [hr, NodeBound] at this; simp only [Below]; omega
  | err e => trivial
  | panic x => trivial

theorem blockMappingValue_below (p : PState) (hs : p.state = .blockMappingValue) :
    Below (phi p) (blockMappingValue p) := by
  unfold blockMappingValue
  apply Below_bind; intro t ht
  obtain ⟨hl, hh, hw⟩ := peekTok_ok ht
  have hphi : phi p = wt p + rk .blockMappingValue (some t.ty) := by simp [phi, hs, hh]
  split
  · rename_i hty
    apply Below_bind; intro t2 ht2
    obtain ⟨hl2, hh2, hw2⟩ := peekTok_ok ht2
    have : phi p = wt p + 1 := by rw [hphi, hty]; rfl
    split
    all_goals first
      | (simp only [Below, phi, wt_setState, hdTy_setState]
         have := rk_le State.blockMappingKey (hdTy (skipTok p)); omega)
      | (apply node_below; simp only [wt_push, rs]; omega)
  · rename_i hty
    have h2 : rk .blockMappingValue (some t.ty) = 2 := by
      cases hc : t.ty <;> simp_all [rk]
    have h1 : rk .blockMappingKey (some t.ty) = 1 := by
      cases hc : t.ty <;> simp_all [rk]
    simp only [Below]
    rw [hphi, h2]
    simp only [phi, wt_setState, hdTy_setState, hh, h1]
    omega

@[simp] theorem wt_skipTok_setState (p : PState) (s : State) : wt (skipTok { p with state := s }) = wt (skipTok p) := rfl

theorem wt_le_phi (p : PState) : wt p ≤ phi p := Nat.le_add_right _ _

/-- a token was consumed on the way: whatever state comes next, the potential has dropped -/
macro "consumed" : tactic => `(tactic|
  (simp only [Below]; refine Nat.lt_of_le_of_lt (phi_le _) ?_
   (try simp only [wt_setState, wt_push, wt_skipTok_setState, rs]); omega))
/-- `parse_node` after a token was consumed (or from a state that outranks every first-entry state) -/
macro "node" : tactic => `(tactic| (apply node_below; (try simp only [wt_push, wt_setState, rs]); omega))

theorem skipFirst_ok {first : Bool} {p q : PState} (h : skipFirst first p = .ok q) :
    q.state = p.state ∧ wt q ≤ wt p ∧ (first = true → wt q + 16 = wt p) ∧ (first = false → q = p) := by
  unfold skipFirst at h
  cases first with
  | false => simp only [Bool.false_eq_true, ↓reduceIte, Pure.pure, Res.ok.injEq] at h; subst h; simp
  | true =>
    simp only [↓reduceIte, Bind.bind, Pure.pure] at h
    cases hp : peekTok p with
    | ok t =>
      simp only [hp, Res.ok.injEq] at h; subst h
      obtain ⟨_, _, hw⟩ := peekTok_ok hp
      exact ⟨rfl, by omega, fun _ => hw, by simp⟩
    | err e => simp [hp] at h
    | panic x => simp [hp] at h

theorem requireFlowEntry_ok {first : Bool} {t : Token} {msg : String} {q q2 : PState} (ht : peekTok q = .ok t)
    (h : requireFlowEntry first t msg q = .ok q2) :
    q2.state = q.state ∧ wt q2 ≤ wt q ∧ (first = false → wt q2 + 16 = wt q) := by
  unfold requireFlowEntry at h
  obtain ⟨_, _, hw⟩ := peekTok_ok ht
  cases first with
  | true => simp only [↓reduceIte, Pure.pure, Res.ok.injEq] at h; subst h; simp
  | false =>
    simp only [Bool.false_eq_true, ↓reduceIte] at h
    split at h
    · simp only [Pure.pure, Res.ok.injEq] at h; subst h; exact ⟨rfl, by omega, fun _ => hw⟩
    · simp at h

theorem pop_skip_below {p : PState} {b : Nat} (ev : Event) (sp : Span) (hb : wt p < b) :
    Below b (popState p >>= fun p => .ok (ev, sp, skipTok p)) := by
  apply Below_bind; intro q hq
  exact pop_below hq skipTok (fun x => ⟨wt_skipTok_le x, rfl⟩) hb
theorem pop_id_below {p : PState} {b : Nat} (ev : Event) (sp : Span) (hb : wt p < b) :
    Below b (popState p >>= fun p => .ok (ev, sp, p)) := by
  apply Below_bind; intro q hq
  exact pop_below hq id (fun x => ⟨Nat.le_refl _, rfl⟩) hb

theorem blockMappingKey_below (p : PState) (first : Bool)
    (hs : p.state = if first then .blockMappingFirstKey else .blockMappingKey) :
    Below (phi p) (blockMappingKey p first) := by
  unfold blockMappingKey
  apply Below_bind; intro q hq
  obtain ⟨hqs, hqw, hqf, hqe⟩ := skipFirst_ok hq
  apply Below_bind; intro t ht
  obtain ⟨hl, hh, hw⟩ := peekTok_ok ht
  have hge := wt_le_phi p
  split
  · -- Key: consumed
    apply Below_bind; intro t2 ht2
    split
    all_goals first | consumed | node
  · -- Value
    rename_i hty
    cases first with
    | true => have := hqf rfl; consumed
    | false =>
      have := hqe rfl; subst this
      have hs' : q.state = .blockMappingKey := by simpa using hs
      simp only [Below, phi, wt_setState, hdTy_setState, hh, hty, hs', rk]; omega
  · -- BlockEnd
    have : wt q < phi p := by
      cases first with
      | true => have := hqf rfl; omega
      | false =>
        have := hqe rfl; subst this
        have hs' : q.state = .blockMappingKey := by simpa using hs
        rename_i hty
        have : rk q.state (hdTy q) = 1 := by rw [hs', hh, hty]; rfl
        unfold phi; omega
    exact pop_skip_below _ _ this
  · exact Below_err _

/-- a state of rank ≥ 1 whose step consumed a token or popped -/
theorem one_le_rk_of {s : State} (h : s ≠ .end) (t : Option TokenType) : 1 ≤ rk s t := by
  cases s <;> (try exact absurd rfl h) <;> (rcases t with _ | t) <;> (try cases t) <;> simp [rk]

theorem blockSequenceEntry_below (p : PState) (first : Bool) (hne : p.state ≠ .end) :
    Below (phi p) (blockSequenceEntry p first) := by
  unfold blockSequenceEntry
  apply Below_bind; intro q hq
  obtain ⟨hqs, hqw, hqf, hqe⟩ := skipFirst_ok hq
  apply Below_bind; intro t ht
  obtain ⟨hl, hh, hw⟩ := peekTok_ok ht
  have hge := wt_le_phi p
  have h1 : wt p + 1 ≤ phi p := by have := one_le_rk_of hne (hdTy p); unfold phi; omega
  split
  · exact pop_skip_below _ _ (by omega)
  · apply Below_bind; intro t2 ht2
    split
    all_goals first | consumed | node
  · exact Below_err _

theorem indentlessSequenceEntry_below (p : PState) (hne : p.state ≠ .end) :
    Below (phi p) (indentlessSequenceEntry p) := by
  unfold indentlessSequenceEntry
  apply Below_bind; intro t ht
  obtain ⟨hl, hh, hw⟩ := peekTok_ok ht
  have hge := wt_le_phi p
  have h1 : wt p + 1 ≤ phi p := by have := one_le_rk_of hne (hdTy p); unfold phi; omega
  split
  · apply Below_bind; intro t2 ht2
    split
    all_goals first | consumed | node
  · exact pop_id_below _ _ (by omega)

theorem flowSequenceEntry_below (p : PState) (first : Bool) (hne : p.state ≠ .end) :
    Below (phi p) (flowSequenceEntry p first) := by
  unfold flowSequenceEntry
  apply Below_bind; intro q hq
  obtain ⟨hqs, hqw, hqf, hqe⟩ := skipFirst_ok hq
  apply Below_bind; intro t ht
  obtain ⟨hl, hh, hw⟩ := peekTok_ok ht
  have hge := wt_le_phi p
  have h1 : wt p + 1 ≤ phi p := by have := one_le_rk_of hne (hdTy p); unfold phi; omega
  split
  · exact pop_skip_below _ _ (by omega)
  · apply Below_bind; intro q2 hq2
    obtain ⟨_, hq2w, hq2f⟩ := requireFlowEntry_ok ht hq2
    have hc : wt q2 + 16 ≤ wt p := by
      cases first with
      | true => have := hqf rfl; omega
      | false => have := hq2f rfl; omega
    apply Below_bind; intro t2 ht2
    obtain ⟨_, _, hw2⟩ := peekTok_ok ht2
    split
    · exact pop_skip_below _ _ (by omega)
    · consumed
    · node

theorem flowMappingKey_below (p : PState) (first : Bool) (hne : p.state ≠ .end) :
    Below (phi p) (flowMappingKey p first) := by
  unfold flowMappingKey
  apply Below_bind; intro q hq
  obtain ⟨hqs, hqw, hqf, hqe⟩ := skipFirst_ok hq
  apply Below_bind; intro t ht
  obtain ⟨hl, hh, hw⟩ := peekTok_ok ht
  have hge := wt_le_phi p
  have h1 : wt p + 1 ≤ phi p := by have := one_le_rk_of hne (hdTy p); unfold phi; omega
  split
  · exact pop_skip_below _ _ (by omega)
  · apply Below_bind; intro q2 hq2
    obtain ⟨_, hq2w, hq2f⟩ := requireFlowEntry_ok ht hq2
    have hc : wt q2 + 16 ≤ wt p := by
      cases first with
      | true => have := hqf rfl; omega
      | false => have := hq2f rfl; omega
    apply Below_bind; intro t2 ht2
    obtain ⟨_, _, hw2⟩ := peekTok_ok ht2
    split
    · apply Below_bind; intro t3 ht3
      split
      all_goals first | consumed | node
    · consumed
    · exact pop_skip_below _ _ (by omega)
    · node

theorem flowMappingValue_below (p : PState) (empty : Bool)
    (hs : p.state = if empty then .flowMappingEmptyValue else .flowMappingValue) :
    Below (phi p) (flowMappingValue p empty) := by
  unfold flowMappingValue
  apply Below_bind; intro t ht
  obtain ⟨hl, hh, hw⟩ := peekTok_ok ht
  have hphi : phi p = wt p + 2 := by
    unfold phi
    cases empty with
    | false =>
      have : p.state = .flowMappingValue := by simpa using hs
      rw [this]; cases hdTy p <;> simp [rk]
    | true =>
      have : p.state = .flowMappingEmptyValue := by simpa using hs
      rw [this]; cases hdTy p <;> simp [rk]
  have hk : ∀ h, rk .flowMappingKey h = 1 := by intro h; rcases h with _ | t <;> (try cases t) <;> rfl
  split
  · simp only [Below]; rw [hphi]; simp only [phi, wt_setState, hdTy_setState, hk]; omega
  · split
    · apply Below_bind; intro t2 ht2
      split
      all_goals first | consumed | node
    · simp only [Below]; rw [hphi]; simp only [phi, wt_setState, hdTy_setState, hk]; omega

theorem fsemKey_below (p : PState) (hs : p.state = .flowSequenceEntryMappingKey) :
    Below (phi p) (flowSequenceEntryMappingKey p) := by
  unfold flowSequenceEntryMappingKey
  apply Below_bind; intro t ht
  have hphi : phi p = wt p + 5 := by unfold phi; rw [hs]; cases hdTy p <;> simp [rk]
  have hk : ∀ h, rk .flowSequenceEntryMappingValue h = 3 := by intro h; rcases h with _ | t <;> (try cases t) <;> rfl
  split
  all_goals first
    | (simp only [Below]; rw [hphi]; simp only [phi, wt_setState, hdTy_setState, hk]; omega)
    | node

theorem fsemValue_below (p : PState) (hs : p.state = .flowSequenceEntryMappingValue) :
    Below (phi p) (flowSequenceEntryMappingValue p) := by
  unfold flowSequenceEntryMappingValue
  apply Below_bind; intro t ht
  obtain ⟨hl, hh, hw⟩ := peekTok_ok ht
  have hphi : phi p = wt p + 3 := by unfold phi; rw [hs]; cases hdTy p <;> simp [rk]
  have hk : ∀ m h, rk (.flowSequenceEntryMappingEnd m) h = 2 := by intro m h; rcases h with _ | t <;> (try cases t) <;> rfl
  split
  · apply Below_bind; intro t2 ht2
    split
    all_goals first | consumed | node
  · simp only [Below]; rw [hphi]; simp only [phi, wt_setState, hdTy_setState, hk]; omega

theorem streamStart_below (p : PState) : Below (phi p) (streamStart p) := by
  unfold streamStart
  apply Below_bind; intro t ht
  obtain ⟨hl, hh, hw⟩ := peekTok_ok ht
  have hge := wt_le_phi p
  split
  · have : wt (skipTok { p with state := .implicitDocumentStart }) + 16 = wt p := hw
    simp only [Below]; refine Nat.lt_of_le_of_lt (phi_le _) ?_; omega
  · exact Below_err _

theorem documentContent_below (p : PState) (hs : p.state = .documentContent) :
    Below (phi p) (documentContent p) := by
  unfold documentContent
  apply Below_bind; intro t ht
  have hphi : phi p = wt p + 2 := by unfold phi; rw [hs]; cases hdTy p <;> simp [rk]
  split
  all_goals first
    | exact pop_id_below _ _ (by omega)
    | node

theorem documentEnd_below (p : PState) (hs : p.state = .documentEnd) :
    Below (phi p) (documentEnd p) := by
  unfold documentEnd
  apply Below_bind; intro t ht
  obtain ⟨hl, hh, hw⟩ := peekTok_ok ht
  have hphi : phi p = wt p + 2 := by unfold phi; rw [hs]; cases hdTy p <;> simp [rk]
  have hk : ∀ h, rk .documentStart h = 1 := by intro h; rcases h with _ | t <;> (try cases t) <;> rfl
  have hw1 : ∀ q : PState, wt (clearAnchors (clearTags q)) = wt q := by
    intro q; unfold clearTags clearAnchors wt; split <;> rfl
  split
  · simp only [Below]; refine Nat.lt_of_le_of_lt (phi_le _) ?_
    simp only [wt_setState, hw1]; omega
  · apply Below_bind; intro t2 ht2
    split
    · exact Below_err _
    · exact Below_err _
    · simp only [Below]; rw [hphi]; simp only [phi, wt_setState, hdTy_setState, hk, hw1]; omega

theorem skipDocEnds_wt (n : Nat) (p q : PState) (h : skipDocEnds n p = .ok q) :
    wt q ≤ wt p ∧ q.state = p.state := by
  induction n generalizing p with
  | zero => simp only [skipDocEnds, Res.ok.injEq] at h; subst h; exact ⟨Nat.le_refl _, rfl⟩
  | succ n ih =>
    unfold skipDocEnds at h
    cases hp : peekTok p with
    | err e => simp [hp, Bind.bind] at h
    | panic x => simp [hp, Bind.bind] at h
    | ok t =>
      simp only [hp, Bind.bind] at h
      split at h
      · have h1 := ih (skipTok p) h
        have h2 := wt_skipTok_le p
        exact ⟨by omega, h1.2⟩
      · simp only [Res.ok.injEq] at h; subst h; exact ⟨Nat.le_refl _, rfl⟩

theorem directivesLoop_wt (n : Nat) (p q : PState) (v : Bool) (acc a : List (Str × Str))
    (h : directivesLoop n p v acc = .ok (q, a)) : wt q ≤ wt p ∧ q.state = p.state ∧ q.states = p.states := by
  induction n generalizing p v acc with
  | zero => simp only [directivesLoop, Res.ok.injEq, Prod.mk.injEq] at h; rw [← h.1]; exact ⟨Nat.le_refl _, rfl, rfl⟩
  | succ n ih =>
    unfold directivesLoop at h
    cases hp : peekTok p with
    | err e => simp [hp, Bind.bind] at h
    | panic x => simp [hp, Bind.bind] at h
    | ok t =>
      simp only [hp, Bind.bind] at h
      have hsk := wt_skipTok_le p
      split at h
      · split at h
        · simp at h
        · have := ih (skipTok p) true acc h; exact ⟨by omega, this.2.1, this.2.2⟩
      · split at h
        · have := ih (skipTok p) v acc h; exact ⟨by omega, this.2.1, this.2.2⟩
        · split at h
          · simp at h
          · have := ih (skipTok p) v _ h; exact ⟨by omega, this.2.1, this.2.2⟩
      · simp only [Res.ok.injEq, Prod.mk.injEq] at h; rw [← h.1]; exact ⟨Nat.le_refl _, rfl, rfl⟩

theorem processDirectives_wt (n : Nat) (p q : PState) (v : Bool) (h : processDirectives n p v = .ok q) :
    wt q ≤ wt p ∧ q.state = p.state := by
  unfold processDirectives at h
  cases hd : directivesLoop n p v [] with
  | err e => simp [hd, Bind.bind] at h
  | panic x => simp [hd, Bind.bind] at h
  | ok r =>
    obtain ⟨q0, a⟩ := r
    simp only [hd, Bind.bind, Res.ok.injEq] at h
    have := directivesLoop_wt n p q0 v [] a hd
    subst h
    exact ⟨by simpa [wt] using (show wt q0 ≤ wt p from this.1) |> fun h => by simpa [wt, this.2.2] using h, this.2.1⟩

theorem explicitDocumentStart_below (q : PState) {b : Nat} (hb : wt q < b) : Below b (explicitDocumentStart q) := by
  unfold explicitDocumentStart
  apply Below_bind; intro q2 hq2
  have h2 := processDirectives_wt _ _ _ _ hq2
  apply Below_bind; intro t ht
  obtain ⟨_, _, hw⟩ := peekTok_ok ht
  split
  · have h3 : wt (skipTok (pushState q2 .documentEnd)) + 16 = wt q2 + 2 := by
      have h1 : peekTok (pushState q2 .documentEnd) = .ok t := ht
      have := (peekTok_ok h1).2.2
      simpa [rs] using this
    simp only [Below]; refine Nat.lt_of_le_of_lt (phi_le _) ?_
    show wt (skipTok (pushState q2 .documentEnd)) + 5 < b
    omega
  · exact Below_err _

theorem documentStart_below (p : PState) (implicit : Bool) (hne : p.state ≠ .end)
    (hs : implicit = true → p.state = .implicitDocumentStart) : Below (phi p) (documentStart p implicit) := by
  unfold documentStart
  apply Below_bind; intro q hq
  have h1 := skipDocEnds_wt _ _ _ hq
  have hp1 : wt p + 1 ≤ phi p := by have := one_le_rk_of hne (hdTy p); unfold phi; omega
  apply Below_bind; intro t ht
  obtain ⟨_, _, hw⟩ := peekTok_ok ht
  have hex : Below (phi p) (explicitDocumentStart q) := explicitDocumentStart_below q (by omega)
  split
  · have : wt (skipTok { q with state := .end }) + 16 = wt q := hw
    simp only [Below]; refine Nat.lt_of_le_of_lt (phi_le _) ?_; omega
  · exact hex
  · exact hex
  · exact hex
  · split
    · rename_i himp
      apply Below_bind; intro q2 hq2
      have h2 := processDirectives_wt _ _ _ _ hq2
      have hphi : phi p = wt p + 5 := by unfold phi; rw [hs himp]; cases hdTy p <;> simp [rk]
      have hk : ∀ h, rk .blockNode h = 2 := by intro h; rcases h with _ | t <;> (try cases t) <;> rfl
      simp only [Below]; rw [hphi]
      simp only [phi, wt_setState, hdTy_setState, wt_push, hk, rs]; omega
    · exact hex

/-- **Every step of the state machine decreases the potential.** -/
theorem parseStep_below (p : PState) (hne : p.state ≠ .end) : Below (phi p) (parseStep p) := by
  unfold parseStep
  split
  · exact absurd ‹p.state = .end› hne
  · exact streamStart_below p
  · exact documentStart_below p true hne (fun _ => ‹_›)
  · exact documentStart_below p false hne (fun h => by simp at h)
  · exact documentContent_below p ‹_›
  · exact documentEnd_below p ‹_›
  · have hphi : phi p = wt p + 2 := by unfold phi; rw [‹p.state = .blockNode›]; cases hdTy p <;> simp [rk]
    node
  · exact blockMappingKey_below p true (by simpa using ‹p.state = .blockMappingFirstKey›)
  · exact blockMappingKey_below p false (by simpa using ‹p.state = .blockMappingKey›)
  · exact blockMappingValue_below p ‹_›
  · exact blockSequenceEntry_below p true hne
  · exact blockSequenceEntry_below p false hne
  · exact flowSequenceEntry_below p true hne
  · exact flowSequenceEntry_below p false hne
  · exact flowMappingKey_below p true hne
  · exact flowMappingKey_below p false hne
  · exact flowMappingValue_below p false (by simpa using ‹p.state = .flowMappingValue›)
  · exact indentlessSequenceEntry_below p hne
  · exact fsemKey_below p ‹_›
  · exact fsemValue_below p ‹_›
  · rename_i m hm
    have hphi : phi p = wt p + 2 := by unfold phi; rw [hm]; cases hdTy p <;> simp [rk]
    simp only [Below]; rw [hphi]
    have hk : ∀ h, rk .flowSequenceEntry h = 1 := by intro h; rcases h with _ | t <;> (try cases t) <;> rfl
    simp only [phi, wt_setState, hdTy_setState, hk]; omega
  · exact flowMappingValue_below p true (by simpa using ‹p.state = .flowMappingEmptyValue›)

end SaphyrModel
