import SaphyrModel.Spec.Positions
import SaphyrModel.Proofs.BlockLitToken
/-! C12, counting lemmas: how the specification's line/column counter (`Spec.advanceLC`) moves over text free of
breaks, over each spelling of a line break, and over a concatenation. -/
set_option linter.unusedSimpArgs false
namespace SaphyrModel.C12C
open SaphyrModel SaphyrModel.Sc SaphyrModel.Spec SaphyrModel.C14L SaphyrModel.C05 SaphyrModel.C10

/-- over characters that are not breaks the counter stays on the line and moves one column each -/
theorem advanceLC_nobreak : ∀ (l : Str) (L C : Nat), (∀ c ∈ l, isBreak c = false) → advanceLC l (L, C) = (L, C + l.length) := by
  intro l
  induction l with
  | nil => intro L C _; rfl
  | cons a t ih =>
    intro L C h
    have ha : isBreak a = false := h a (by simp)
    have h1 : a ≠ '\n' := by intro e; rw [e] at ha; exact absurd ha (by decide)
    have h2 : a ≠ '\r' := by intro e; rw [e] at ha; exact absurd ha (by decide)
    have : advanceLC (a :: t) (L, C) = advanceLC t (L, C + 1) := by
      rw [advanceLC]
      all_goals (intros; simp_all)
    rw [this, ih L (C + 1) (fun c hc => h c (by simp [hc]))]
    simp only [List.length_cons]
    congr 1; omega

/-- the counter over a concatenation, when no CR LF pair straddles the seam -/
theorem advanceLC_append (y : Str) (hy : y.headD '\x00' ≠ '\n') : ∀ (x : Str) (lc : Nat × Nat),
    advanceLC (x ++ y) lc = advanceLC y (advanceLC x lc) := by
  intro x lc
  fun_induction advanceLC x lc with
  | case1 lc => simp [advanceLC]
  | case2 r l k ih => simpa [advanceLC] using ih
  | case3 r l k ih => simpa [advanceLC] using ih
  | case4 r l k hr ih =>
    have : advanceLC ('\r' :: (r ++ y)) (l, k) = advanceLC (r ++ y) (l + 1, 0) := by
      cases r with
      | nil =>
        cases y with
        | nil => simp [advanceLC]
        | cons a t =>
          have ha : a ≠ '\n' := by simpa using hy
          simp [advanceLC, ha]
      | cons a t =>
        have ha : a ≠ '\n' := by intro h; subst h; exact hr t rfl
        simp [advanceLC, ha]
    simpa [this] using ih
  | case5 a r l k ha1 ha2 ha3 ih =>
    have : advanceLC (a :: (r ++ y)) (l, k) = advanceLC (r ++ y) (l, k + 1) := by
      rw [advanceLC]
      all_goals (intros; simp_all)
    simpa [this] using ih

/-- each spelling of a line break takes the counter to column 0 of the next line -/
theorem advanceLC_brk (b : Brk) (L C : Nat) : advanceLC b.txt (L, C) = (L + 1, 0) := by
  cases b <;> simp [Brk.txt, advanceLC]

/-- the counter over a concatenation whose first part is free of breaks -/
theorem advanceLC_nobreak_append : ∀ (x y : Str) (L C : Nat), (∀ c ∈ x, isBreak c = false) →
    advanceLC (x ++ y) (L, C) = advanceLC y (L, C + x.length) := by
  intro x
  induction x with
  | nil => intro y L C _; rfl
  | cons a t ih =>
    intro y L C h
    have ha : isBreak a = false := h a (by simp)
    have h1 : a ≠ '\n' := by intro e; rw [e] at ha; exact absurd ha (by decide)
    have h2 : a ≠ '\r' := by intro e; rw [e] at ha; exact absurd ha (by decide)
    have : advanceLC (a :: (t ++ y)) (L, C) = advanceLC (t ++ y) (L, C + 1) := by
      rw [advanceLC]
      all_goals (intros; simp_all)
    rw [List.cons_append, this, ih y L (C + 1) (fun c hc => h c (by simp [hc]))]
    simp only [List.length_cons]
    congr 2; omega

/-- the counter over a concatenation whose first part does not end with a carriage return -/
theorem advanceLC_append_left (y : Str) : ∀ (x : Str) (lc : Nat × Nat), (∀ p, x ≠ p ++ ['\r']) →
    advanceLC (x ++ y) lc = advanceLC y (advanceLC x lc) := by
  intro x lc
  fun_induction advanceLC x lc with
  | case1 lc => intro _; simp [advanceLC]
  | case2 r l k ih =>
    intro hx
    have := ih (fun p hp => hx ('\n' :: p) (by rw [hp]; rfl))
    simpa [advanceLC] using this
  | case3 r l k ih =>
    intro hx
    have := ih (fun p hp => by
      cases p with
      | nil => simp at hp
      | cons a t =>
        simp only [List.cons_append, List.cons.injEq] at hp
        exact hx ('\r' :: '\n' :: t) (by rw [hp.2]; rfl))
    simpa [advanceLC] using this
  | case4 r l k hr ih =>
    intro hx
    cases r with
    | nil => exact absurd rfl (hx [])
    | cons a t =>
      have ha : a ≠ '\n' := by intro h; subst h; exact hr t rfl
      have := ih (fun p hp => hx ('\r' :: p) (by rw [hp]; rfl))
      simpa [advanceLC, ha] using this
  | case5 a r l k ha1 ha2 ha3 ih =>
    intro hx
    have h5 : advanceLC (a :: (r ++ y)) (l, k) = advanceLC (r ++ y) (l, k + 1) := by
      rw [advanceLC]
      all_goals (intros; simp_all)
    have := ih (fun p hp => hx (a :: p) (by rw [hp]; rfl))
    simpa [h5] using this

/-- the text of content lines, each indented by `ind` spaces and ended by its own break -/
def linesTxt (ind : Nat) : List (Str × Brk) → Str
  | [] => []
  | (l, b) :: ls => List.replicate ind ' ' ++ (l ++ (b.txt ++ linesTxt ind ls))

theorem restLinesB_eq (ind : Nat) (tail : Str) : ∀ ls, restLinesB ind ls tail = linesTxt ind ls ++ tail := by
  intro ls
  induction ls with
  | nil => rfl
  | cons p ls ih => obtain ⟨l, b⟩ := p; simp [restLinesB, linesTxt, ih, List.append_assoc]

theorem replicate_nobreak (n : Nat) : ∀ c ∈ List.replicate n ' ', isBreak c = false := by
  intro c hc
  rw [List.eq_of_mem_replicate hc]; decide

theorem good_nobreak {l : Str} (h : GoodLine l) : ∀ c ∈ l, isBreak c = false :=
  fun c hc => (nb_not_break (h.2 c hc)).1

/-- one indented line with its break: the counter moves to column 0 of the next line -/
theorem advanceLC_line (ind : Nat) (l : Str) (b : Brk) (R : Str) (L : Nat) (hl : GoodLine l) (hR : R.headD '\x00' ≠ '\n') :
    advanceLC (List.replicate ind ' ' ++ (l ++ (b.txt ++ R))) (L, 0) = advanceLC R (L + 1, 0) := by
  rw [advanceLC_nobreak_append _ _ _ _ (replicate_nobreak ind), advanceLC_nobreak_append _ _ _ _ (good_nobreak hl),
    advanceLC_append R hR, advanceLC_brk]

theorem linesTxt_head (ind : Nat) (hind : ind ≠ 0) (y : Str) (hy : y.headD '\x00' ≠ '\n') :
    ∀ ls, (linesTxt ind ls ++ y).headD '\x00' ≠ '\n' := by
  intro ls
  cases ls with
  | nil => simpa [linesTxt] using hy
  | cons p ls =>
    obtain ⟨l, b⟩ := p
    obtain ⟨n, rfl⟩ : ∃ n, ind = n + 1 := ⟨ind - 1, by omega⟩
    simp [linesTxt, List.replicate_succ]

/-- all the content lines: the counter moves down one line per content line -/
theorem advanceLC_lines (ind : Nat) (hind : ind ≠ 0) (y : Str) (hy : y.headD '\x00' ≠ '\n') :
    ∀ (ls : List (Str × Brk)) (L : Nat), (∀ p ∈ ls, GoodLine p.1) →
      advanceLC (linesTxt ind ls ++ y) (L, 0) = advanceLC y (L + ls.length, 0) := by
  intro ls
  induction ls with
  | nil => intro L _; rfl
  | cons p ls ih =>
    obtain ⟨l, b⟩ := p
    intro L h
    have hl : GoodLine l := h (l, b) (by simp)
    simp only [linesTxt, List.append_assoc]
    rw [advanceLC_line ind l b _ L hl (linesTxt_head ind hind y hy ls), ih (L + 1) (fun q hq => h q (by simp [hq]))]
    simp only [List.length_cons]
    congr 2; omega

end SaphyrModel.C12C
