import SaphyrModel.Proofs.Anchors
/-! Every state function of the parser obeys the anchor-id discipline (`StepOk`). -/
namespace SaphyrModel

def StepOk (p : PState) (ev : Event) (p' : PState) : Prop := AInv p → AInv p' ∧ EvSpec p.anchorId ev p'.anchorId

/-- postcondition of a state function started from `p0` -/
def Post (p0 : PState) (r : Res Out) : Prop := ∀ ev sp p', r = .ok (ev, sp, p') → StepOk p0 ev p'

theorem Post_err (p0 : PState) (e : ScanError) : Post p0 (.err e) := by intro ev sp p' h; cases h
theorem Post_leaf {p0 p' : PState} {ev : Event} {sp : Span} (hk : Keeps p0 p') (hn : NoAid ev) :
    Post p0 (.ok (ev, sp, p')) := by
  intro ev' sp' p'' h hp
  simp only [Res.ok.injEq, Prod.mk.injEq] at h
  obtain ⟨h1, _, h3⟩ := h
  subst h1; subst h3
  exact ⟨hk.ainv hp, by rw [hk.1]; exact hn.spec _⟩
theorem Post_parseNode {p0 q : PState} (hk : Keeps p0 q) (b i : Bool) : Post p0 (parseNode q b i) := by
  intro ev sp p' h hp
  have := parseNode_anch q b i ev sp p' (hk.ainv hp) h
  rw [hk.1] at this
  exact this
theorem Post_bind_peek {p0 p : PState} {f : Token → Res Out} (hf : ∀ t, Post p0 (f t)) :
    Post p0 (peekTok p >>= f) := by
  cases hp : peekTok p with
  | ok t => simpa [Bind.bind] using hf t
  | err e => simpa [Bind.bind] using Post_err p0 e
  | panic x => intro ev sp p' h; simp [Bind.bind] at h
theorem Post_bind {p0 p1 : PState} {m : Res PState} {f : PState → Res Out} (hk : Keeps p0 p1)
    (hm : ∀ q, m = .ok q → Keeps p1 q) (hf : ∀ q, Keeps p0 q → Post p0 (f q)) : Post p0 (m >>= f) := by
  cases h : m with
  | ok q => simpa [Bind.bind] using hf q (hk.trans (hm q h))
  | err e => simpa [Bind.bind] using Post_err p0 e
  | panic x => intro ev sp p' h; simp [Bind.bind] at h

theorem skipFirst_keeps (first : Bool) (p q : PState) (h : skipFirst first p = .ok q) : Keeps p q := by
  unfold skipFirst at h
  split at h
  · cases hp : peekTok p <;> simp [hp, Bind.bind, Pure.pure] at h
    subst h; exact ⟨rfl, Or.inl rfl⟩
  · simp [Pure.pure] at h; subst h; exact Keeps.refl _
theorem requireFlowEntry_keeps (first : Bool) (t : Token) (msg : String) (p q : PState)
    (h : requireFlowEntry first t msg p = .ok q) : Keeps p q := by
  unfold requireFlowEntry at h
  split at h
  · simp [Pure.pure] at h; subst h; exact Keeps.refl _
  · split at h
    · simp [Pure.pure] at h; subst h; exact ⟨rfl, Or.inl rfl⟩
    · simp at h
theorem skipDocEnds_keeps (n : Nat) (p q : PState) (h : skipDocEnds n p = .ok q) : Keeps p q := by
  induction n generalizing p with
  | zero => simp [skipDocEnds] at h; subst h; exact Keeps.refl _
  | succ k ih =>
    unfold skipDocEnds at h
    cases hp : peekTok p with
    | err e => simp [hp, Bind.bind] at h
    | panic x => simp [hp, Bind.bind] at h
    | ok t =>
      simp only [hp, Bind.bind] at h
      split at h
      · exact (show Keeps p (skipTok p) from ⟨rfl, Or.inl rfl⟩).trans (ih _ h)
      · simp at h; subst h; exact Keeps.refl _
theorem directivesLoop_keeps (n : Nat) (p : PState) (v : Bool) (acc : List (Str × Str)) (q : PState)
    (a : List (Str × Str)) (h : directivesLoop n p v acc = .ok (q, a)) : Keeps p q := by
  induction n generalizing p v acc with
  | zero => simp [directivesLoop] at h; rw [← h.1]; exact Keeps.refl _
  | succ k ih =>
    unfold directivesLoop at h
    cases hp : peekTok p with
    | err e => simp [hp, Bind.bind] at h
    | panic x => simp [hp, Bind.bind] at h
    | ok t =>
      simp only [hp, Bind.bind] at h
      have hs : Keeps p (skipTok p) := ⟨rfl, Or.inl rfl⟩
      repeat' (first
        | (simp at h; done)
        | exact hs.trans (ih _ _ _ h)
        | (simp only [Res.ok.injEq, Prod.mk.injEq] at h; rw [← h.1]; exact Keeps.refl _)
        | split at h)
theorem processDirectives_keeps (n : Nat) (p : PState) (v : Bool) (q : PState)
    (h : processDirectives n p v = .ok q) : Keeps p q := by
  unfold processDirectives at h
  cases hd : directivesLoop n p v [] with
  | err e => simp [hd, Bind.bind] at h
  | panic x => simp [hd, Bind.bind] at h
  | ok r =>
    obtain ⟨q0, a⟩ := r
    simp only [hd, Bind.bind, Res.ok.injEq] at h
    subst h
    have := directivesLoop_keeps n p v [] q0 a hd
    exact ⟨this.1, this.2⟩

/-- `Keeps p0 q'` where `q'` is `q` with tokens skipped / states pushed / the state field changed -/
macro "keeps" : tactic => `(tactic| first
  | assumption
  | exact Keeps.refl _
  | (constructor <;> simp_all [Keeps, skipTok, pushState]))

/-- close a leaf of a state function: an error, a direct result, or a call of `parse_node` -/
macro "anch_leaf" : tactic => `(tactic| first
  | exact Post_err _ _
  | (apply Post_parseNode; keeps)
  | (apply Post_leaf
     · keeps
     · simp [NoAid, emptyScalar]))

theorem popState_keeps' (p q : PState) (h : popState p = .ok q) : Keeps p q := popState_keeps h

theorem blockMappingKey_anch (p : PState) (first : Bool) : Post p (blockMappingKey p first) := by
  unfold blockMappingKey
  apply Post_bind (Keeps.refl p) (skipFirst_keeps first p); intro q hq
  apply Post_bind_peek; intro t
  split
  · apply Post_bind_peek; intro t2
    split <;> anch_leaf
  · anch_leaf
  · apply Post_bind hq (popState_keeps' q); intro q2 hq2
    anch_leaf
  · anch_leaf

theorem blockMappingValue_anch (p : PState) : Post p (blockMappingValue p) := by
  unfold blockMappingValue
  apply Post_bind_peek; intro t
  split
  · apply Post_bind_peek; intro t2
    split <;> anch_leaf
  · anch_leaf

theorem flowMappingKey_anch (p : PState) (first : Bool) : Post p (flowMappingKey p first) := by
  unfold flowMappingKey
  apply Post_bind (Keeps.refl p) (skipFirst_keeps first p); intro q hq
  apply Post_bind_peek; intro t
  split
  · apply Post_bind hq (popState_keeps' q); intro q2 hq2
    anch_leaf
  · apply Post_bind hq (requireFlowEntry_keeps first t _ q); intro q2 hq2
    apply Post_bind_peek; intro t2
    split
    · apply Post_bind_peek; intro t3
      split <;> anch_leaf
    · anch_leaf
    · apply Post_bind hq2 (popState_keeps' q2); intro q3 hq3
      anch_leaf
    · anch_leaf

theorem flowMappingValue_anch (p : PState) (empty : Bool) : Post p (flowMappingValue p empty) := by
  unfold flowMappingValue
  apply Post_bind_peek; intro t
  split
  · anch_leaf
  · split
    · apply Post_bind_peek; intro t2
      split <;> anch_leaf
    · anch_leaf

theorem flowSequenceEntry_anch (p : PState) (first : Bool) : Post p (flowSequenceEntry p first) := by
  unfold flowSequenceEntry
  apply Post_bind (Keeps.refl p) (skipFirst_keeps first p); intro q hq
  apply Post_bind_peek; intro t
  split
  · apply Post_bind hq (popState_keeps' q); intro q2 hq2
    anch_leaf
  · apply Post_bind hq (requireFlowEntry_keeps first t _ q); intro q2 hq2
    apply Post_bind_peek; intro t2
    split
    · apply Post_bind hq2 (popState_keeps' q2); intro q3 hq3
      anch_leaf
    · anch_leaf
    · anch_leaf

theorem indentlessSequenceEntry_anch (p : PState) : Post p (indentlessSequenceEntry p) := by
  unfold indentlessSequenceEntry
  apply Post_bind_peek; intro t
  split
  · apply Post_bind_peek; intro t2
    split <;> anch_leaf
  · apply Post_bind (Keeps.refl p) (popState_keeps' p); intro q hq
    anch_leaf

theorem blockSequenceEntry_anch (p : PState) (first : Bool) : Post p (blockSequenceEntry p first) := by
  unfold blockSequenceEntry
  apply Post_bind (Keeps.refl p) (skipFirst_keeps first p); intro q hq
  apply Post_bind_peek; intro t
  split
  · apply Post_bind hq (popState_keeps' q); intro q2 hq2
    anch_leaf
  · apply Post_bind_peek; intro t2
    split <;> anch_leaf
  · anch_leaf

theorem flowSequenceEntryMappingKey_anch (p : PState) : Post p (flowSequenceEntryMappingKey p) := by
  unfold flowSequenceEntryMappingKey
  apply Post_bind_peek; intro t
  split <;> anch_leaf

theorem flowSequenceEntryMappingValue_anch (p : PState) : Post p (flowSequenceEntryMappingValue p) := by
  unfold flowSequenceEntryMappingValue
  apply Post_bind_peek; intro t
  split
  · apply Post_bind_peek; intro t2
    split <;> anch_leaf
  · anch_leaf

theorem streamStart_anch (p : PState) : Post p (streamStart p) := by
  unfold streamStart
  apply Post_bind_peek; intro t
  split <;> anch_leaf

theorem documentContent_anch (p : PState) : Post p (documentContent p) := by
  unfold documentContent
  apply Post_bind_peek; intro t
  split
  all_goals first
    | (apply Post_bind (Keeps.refl p) (popState_keeps' p); intro q hq; anch_leaf)
    | anch_leaf

theorem explicitDocumentStart_anch (p0 p : PState) (hk : Keeps p0 p) : Post p0 (explicitDocumentStart p) := by
  unfold explicitDocumentStart
  apply Post_bind hk (processDirectives_keeps _ p false); intro q hq
  apply Post_bind_peek; intro t
  split <;> anch_leaf

theorem documentStart_anch (p : PState) (implicit : Bool) : Post p (documentStart p implicit) := by
  unfold documentStart
  apply Post_bind (Keeps.refl p) (skipDocEnds_keeps _ p); intro q hq
  apply Post_bind_peek; intro t
  split
  · anch_leaf
  · exact explicitDocumentStart_anch p q hq
  · exact explicitDocumentStart_anch p q hq
  · exact explicitDocumentStart_anch p q hq
  · split
    · apply Post_bind hq (processDirectives_keeps _ q false); intro q2 hq2
      anch_leaf
    · exact explicitDocumentStart_anch p q hq

theorem clearTags_keeps (p : PState) : Keeps p (clearTags p) := by
  unfold clearTags; split <;> exact ⟨rfl, Or.inl rfl⟩

theorem documentEnd_anch (p : PState) : Post p (documentEnd p) := by
  unfold documentEnd
  apply Post_bind_peek; intro t
  have hc : Keeps p (clearAnchors (clearTags p)) := ⟨(clearTags_keeps p).1, Or.inr rfl⟩
  have hc2 : Keeps p (clearAnchors (clearTags (skipTok p))) :=
    ⟨(clearTags_keeps (skipTok p)).1, Or.inr rfl⟩
  split
  · apply Post_leaf
    · exact ⟨hc2.1, Or.inr rfl⟩
    · simp [NoAid]
  · apply Post_bind_peek; intro t2
    split
    · exact Post_err _ _
    · exact Post_err _ _
    · apply Post_leaf
      · exact ⟨hc.1, Or.inr rfl⟩
      · simp [NoAid]

/-- **Every step of the parser obeys the anchor-id discipline.** -/
theorem parseStep_anch (p : PState) : Post p (parseStep p) := by
  unfold parseStep
  split
  · anch_leaf
  · exact streamStart_anch p
  · exact documentStart_anch p true
  · exact documentStart_anch p false
  · exact documentContent_anch p
  · exact documentEnd_anch p
  · exact Post_parseNode (Keeps.refl p) _ _
  · exact blockMappingKey_anch p true
  · exact blockMappingKey_anch p false
  · exact blockMappingValue_anch p
  · exact blockSequenceEntry_anch p true
  · exact blockSequenceEntry_anch p false
  · exact flowSequenceEntry_anch p true
  · exact flowSequenceEntry_anch p false
  · exact flowMappingKey_anch p true
  · exact flowMappingKey_anch p false
  · exact flowMappingValue_anch p false
  · exact indentlessSequenceEntry_anch p
  · exact flowSequenceEntryMappingKey_anch p
  · exact flowSequenceEntryMappingValue_anch p
  · anch_leaf
  · exact flowMappingValue_anch p true

end SaphyrModel
