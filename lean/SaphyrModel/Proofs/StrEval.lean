import SaphyrModel.Sc.Scan3
/-! Evaluating scanner primitives on a string input: each operation as an equation on states
(used by the decode theorems of Props/C04, C09, C13). -/
namespace SaphyrModel.Sc
open SaphyrModel

/-- the state after consuming `k` characters of the current line; `la'` is the look-ahead counter of
    the string input (never read by the functions treated here) -/
def advL (s : Sc) (k : Nat) (la' : Nat) : Sc :=
  { s with inp := { s.inp with iter := s.inp.iter.drop k, la := la' }
           mark := ⟨s.mark.index + k, s.mark.line, s.mark.col + k⟩
           leadingWhitespace := false }

@[simp] theorem advL_kind (s : Sc) (k l) : (advL s k l).inp.kind = s.inp.kind := rfl
@[simp] theorem advL_iter (s : Sc) (k l) : (advL s k l).inp.iter = s.inp.iter.drop k := rfl
@[simp] theorem advL_col (s : Sc) (k l) : (advL s k l).mark.col = s.mark.col + k := rfl
@[simp] theorem advL_line (s : Sc) (k l) : (advL s k l).mark.line = s.mark.line := rfl
@[simp] theorem advL_indent (s : Sc) (k l) : (advL s k l).indent = s.indent := rfl
@[simp] theorem advL_flow (s : Sc) (k l) : (advL s k l).flowLevel = s.flowLevel := rfl
@[simp] theorem advL_advL (s : Sc) (a b la lb : Nat) : advL (advL s a la) b lb = advL s (a + b) lb := by
  simp only [advL, List.drop_drop, Nat.add_assoc]

theorem peek_str (s : Sc) (h : s.inp.kind = .str) : peek s = .ok (s.inp.iter.headD '\x00', s) := by
  simp [peek, liftI, In.peek, h]
theorem peekNth_str (s : Sc) (n : Nat) (h : s.inp.kind = .str) : peekNth n s = .ok (s.inp.iter.getD n '\x00', s) := by
  simp [peekNth, liftI, In.peekNth, h]
theorem lookahead_str (s : Sc) (n : Nat) (h : s.inp.kind = .str) :
    lookahead n s = .ok ((), { s with inp := { s.inp with la := max s.inp.la n } }) := by
  simp [lookahead, liftI, In.lookahead, h]

/-- a look-ahead request changes nothing but the counter: on a state written as `advL` it is absorbed -/
theorem lookahead_advL (s : Sc) (k l n : Nat) (h : s.inp.kind = .str) :
    lookahead n (advL s k l) = .ok ((), advL s k (max l n)) := by
  rw [lookahead_str _ _ (by simpa using h)]; rfl

theorem skipNNonBlank_str (s : Sc) (n l : Nat) (k : Nat) (h : s.inp.kind = .str) :
    skipNNonBlank n (advL s k l) = .ok ((), advL s (k + n) l) := by
  simp [skipNNonBlank, liftI, In.skipN, h, advance, modS, Bind.bind, advL, List.drop_drop, Nat.add_assoc]
theorem skipNonBlank_str (s : Sc) (l k : Nat) (h : s.inp.kind = .str) :
    skipNonBlank (advL s k l) = .ok ((), advL s (k + 1) l) := by
  simp [skipNonBlank, liftI, In.skip, h, advance, modS, Bind.bind, advL, List.drop_drop, Nat.add_assoc]

theorem peek_advL (s : Sc) (k l : Nat) (h : s.inp.kind = .str) :
    peek (advL s k l) = .ok ((s.inp.iter.drop k).headD '\x00', advL s k l) := by
  rw [peek_str _ (by simpa using h)]; rfl
theorem peekNth_advL (s : Sc) (k l n : Nat) (h : s.inp.kind = .str) :
    peekNth n (advL s k l) = .ok ((s.inp.iter.drop k).getD n '\x00', advL s k l) := by
  rw [peekNth_str _ _ (by simpa using h)]; rfl
theorem lookCh_advL (s : Sc) (k l : Nat) (h : s.inp.kind = .str) :
    lookCh (advL s k l) = .ok ((s.inp.iter.drop k).headD '\x00', advL s k (max l 1)) := by
  simp [lookCh, liftI, In.lookCh, In.lookahead, In.peek, h, Bind.bind, advL]

/-- evaluation of a monadic bind whose first action is known -/
theorem bind_eq {α β : Type} {m : S α} {f : α → S β} {s s' : Sc} {a : α} (h : m s = .ok (a, s')) :
    (m >>= f) s = f a s' := by simp only [Bind.bind, h]

end SaphyrModel.Sc
