import SaphyrModel.Proofs.SingleQuoted
/-! C04 / C12, plain scalars on one line in block context: words of ordinary characters separated by blanks are
returned as they stand, and the token's span covers exactly the text — for every such line (string input). -/
set_option linter.unusedSimpArgs false
namespace SaphyrModel.C04P
open SaphyrModel SaphyrModel.Sc SaphyrModel.C10 SaphyrModel.C05 SaphyrModel.C14L SaphyrModel.C05T SaphyrModel.C04S

/-- `At`, plus what the plain-scalar scanner reads besides: block context, the leading-white-space flag, the
    chunk size (`bufmaxlen`) -/
structure AtP (u : Sc) (it : Str) (L C : Nat) (I : Int) (N : Nat) (lw : Bool) (K : Nat) : Prop where
  at_ : At u it L C I N
  flow : u.flowLevel = 0
  lws : u.leadingWhitespace = lw
  cap : u.inp.cap = K

theorem evp_getS {u : Sc} {it : Str} {L C : Nat} {I : Int} {N : Nat} {lw : Bool} {K : Nat} (h : AtP u it L C I N lw K) :
    Ev (getS : S Sc) u u (fun u' => AtP u' it L C I N lw K) := Ev.ok rfl h

theorem evp_lookahead (n : Nat) {u : Sc} {it : Str} {L C : Nat} {I : Int} {N : Nat} {lw : Bool} {K : Nat} (h : AtP u it L C I N lw K) :
    Ev (Sc.lookahead n) u () (fun u' => AtP u' it L C I N lw K) :=
  Ev.ok (lookahead_str_eval n u h.at_.kind)
    ⟨⟨h.at_.kind, h.at_.iter, h.at_.line, h.at_.col, h.at_.indent, h.at_.off⟩, h.flow, h.lws, h.cap⟩

theorem evp_peek {u : Sc} {it : Str} {L C : Nat} {I : Int} {N : Nat} {lw : Bool} {K : Nat} (h : AtP u it L C I N lw K) :
    Ev Sc.peek u (it.headD '\x00') (fun u' => AtP u' it L C I N lw K) := by
  refine Ev.ok (u' := u) ?_ h
  rw [peek_str_eval u h.at_.kind, h.at_.iter]

theorem evp_nextIs (q : Char → Bool) (e : Bool) {u : Sc} {it : Str} {L C : Nat} {I : Int} {N : Nat} {lw : Bool} {K : Nat}
    (h : AtP u it L C I N lw K) :
    Ev (Sc.liftI (In.nextIs q e)) u (ans q e it) (fun u' => AtP u' it L C I N lw K) := by
  refine Ev.ok (u' := u) ?_ h
  rw [nextIs_str_eval q e u h.at_.kind, h.at_.iter]
  cases it <;> rfl

theorem evp_bufmaxlen {u : Sc} {it : Str} {L C : Nat} {I : Int} {N : Nat} {lw : Bool} {K : Nat} (h : AtP u it L C I N lw K) :
    Ev Sc.bufmaxlen u K (fun u' => AtP u' it L C I N lw K) := by
  refine Ev.ok (u' := u) ?_ h
  simp [Sc.bufmaxlen, In.bufmaxlen, h.cap]

theorem evp_skipNonBlank {u : Sc} {c : Char} {it : Str} {L C : Nat} {I : Int} {N : Nat} {lw : Bool} {K : Nat}
    (h : AtP u (c :: it) L C I N lw K) :
    Ev skipNonBlank u () (fun u' => AtP u' it L (C + 1) I N false K) := by
  apply Ev.ok (u' := { (advS u 1 { u.inp with iter := it }) with leadingWhitespace := false })
  · simp [skipNonBlank, Sc.liftI, In.skip, h.at_.kind, h.at_.iter, Bind.bind, advance, modS, advS]
  · refine ⟨⟨h.at_.kind, rfl, h.at_.line, by show u.mark.col + 1 = C + 1; rw [h.at_.col], h.at_.indent, ?_⟩, h.flow, rfl, h.cap⟩
    show u.mark.index + 1 + it.length = N
    have := h.at_.off; simp only [List.length_cons] at this; omega

theorem evp_skipBlank {u : Sc} {c : Char} {it : Str} {L C : Nat} {I : Int} {N : Nat} {lw : Bool} {K : Nat}
    (h : AtP u (c :: it) L C I N lw K) :
    Ev skipBlank u () (fun u' => AtP u' it L (C + 1) I N lw K) := by
  refine Ev.ok (skipBlank_str_eval u h.at_.kind) ⟨⟨h.at_.kind, ?_, h.at_.line, ?_, h.at_.indent, ?_⟩, h.flow, h.lws, h.cap⟩
  · show u.inp.iter.tail = it
    rw [h.at_.iter]; rfl
  · show u.mark.col + 1 = C + 1
    rw [h.at_.col]
  · show u.mark.index + 1 + it.length = N
    have := h.at_.off; simp only [List.length_cons] at this; omega

theorem evp_peekNth1 {u : Sc} {it : Str} {L C : Nat} {I : Int} {N : Nat} {lw : Bool} {K : Nat} (h : AtP u it L C I N lw K) :
    Ev (Sc.peekNth 1) u (it.getD 1 '\x00') (fun u' => AtP u' it L C I N lw K) := by
  refine Ev.ok (u' := u) ?_ h
  simp [Sc.peekNth, Sc.liftI, In.peekNth, h.at_.kind, h.at_.iter]

/-- an ordinary character of a plain scalar: not a blank, break or NUL, and none of `:` and `#` (which are
    legal inside plain scalars only in some positions) -/
def PlainCh (c : Char) : Prop := isBlankOrBreakz c = false ∧ c ≠ ':' ∧ c ≠ '#'

/-- in block context an ordinary character can always continue a plain scalar -/
theorem evp_canBePlain {u : Sc} {c : Char} {it : Str} {L C : Nat} {I : Int} {N : Nat} {lw : Bool} {K : Nat}
    (hc : PlainCh c) (h : AtP u (c :: it) L C I N lw K) :
    Ev (Sc.liftI (In.nextCanBePlainScalar false)) u true (fun u' => AtP u' (c :: it) L C I N lw K) := by
  refine Ev.ok (u' := u) ?_ h
  have hcc : (c == ':') = false := by simpa using hc.2.1
  simp only [Sc.liftI, In.nextCanBePlainScalar, h.at_.kind, h.at_.iter]
  cases it with
  | nil => simp [hcc]
  | cons nc r => simp [hcc]

/-- **One chunk** of the word loop: up to `k` ordinary characters are appended; the chunk reports the end of
    the word when it meets the blank or break that follows within its `k` rounds -/
theorem evp_chunk : ∀ (k : Nat) (w : Str) (str : Str) (tl : Str) (u : Sc) (L C : Nat) (I : Int) (N : Nat) (K : Nat),
    (∀ c ∈ w, PlainCh c) → ans isBlankOrBreakz true tl = true →
    AtP u (w ++ tl) L C I N false K →
    Ev (plainChunk k str) u (str ++ w.take k, decide (w.length < k))
      (fun u' => AtP u' (w.drop k ++ tl) L (C + min k w.length) I N false K) := by
  intro k
  induction k with
  | zero =>
    intro w str tl u L C I N K _ _ h
    unfold plainChunk
    simp only [List.take_zero, List.append_nil, List.drop_zero, Nat.zero_min, Nat.add_zero, Nat.not_lt_zero, decide_false]
    exact Ev.pure _ u h
  | succ k ih =>
    intro w str tl u L C I N K hw hx h
    unfold plainChunk
    apply Ev.getS_bind
    cases w with
    | nil =>
      simp only [List.nil_append] at h
      apply Ev.bind (evp_nextIs isBlankOrBreakz true h)
      intro u1 h1
      simp only [hx, ↓reduceIte, List.take_nil, List.append_nil, List.drop_nil, List.nil_append, List.length_nil,
        Nat.min_zero, Nat.add_zero, Nat.zero_lt_succ, decide_true]
      exact Ev.pure _ u1 h1
    | cons c w =>
      have hc : PlainCh c := hw c (by simp)
      simp only [List.cons_append] at h
      apply Ev.bind (evp_nextIs isBlankOrBreakz true h)
      intro u1 h1
      simp only [ans, hc.1, Bool.false_eq_true, ↓reduceIte]
      have hfl : decide (u.flowLevel > 0) = false := by simp [h.flow]
      rw [hfl]
      apply Ev.bind (evp_canBePlain hc h1)
      intro u2 h2
      simp only [Bool.not_true, Bool.false_eq_true, ↓reduceIte]
      apply Ev.bind (evp_peek h2)
      intro u3 h3
      apply Ev.bind (evp_skipNonBlank h3)
      intro u4 h4
      have := ih w (str ++ [c]) tl u4 L (C + 1) I N K (fun d hd => hw d (by simp [hd])) hx h4
      simp only [List.headD_cons, List.take_succ_cons, List.drop_succ_cons, List.length_cons]
      have e1 : C + min (k + 1) (w.length + 1) = C + 1 + min k w.length := by omega
      have e2 : decide (w.length + 1 < k + 1) = decide (w.length < k) := by simp
      rw [e1, e2]
      simpa [List.append_assoc] using this

/-- **A whole word**, however many chunks it takes -/
theorem evp_chunks (K : Nat) (hK : 2 ≤ K) : ∀ (n : Nat) (w : Str), w.length ≤ n → ∀ (fuel : Nat) (str : Str) (tl : Str) (u : Sc) (L C : Nat) (I : Int) (N : Nat),
    (∀ c ∈ w, PlainCh c) → ans isBlankOrBreakz true tl = true →
    AtP u (w ++ tl) L C I N false K →
    Ev (plainChunks fuel str) u (str ++ w) (fun u' => AtP u' (tl) L (C + w.length) I N false K) := by
  intro n
  induction n with
  | zero =>
    intro w hn fuel str tl u L C I N hw hx h
    have : w = [] := List.eq_nil_of_length_eq_zero (by omega)
    subst this
    cases fuel with
    | zero => left; exact ⟨_, rfl⟩
    | succ f =>
      unfold plainChunks
      apply Ev.bind (evp_bufmaxlen h)
      intro u1 h1
      apply Ev.bind (evp_lookahead K h1)
      intro u2 h2
      apply Ev.bind (evp_chunk (K - 1) [] str tl u2 L C I N K hw hx h2)
      intro u3 h3
      have hk : 0 < K - 1 := by omega
      simp only [List.length_nil, hk, decide_true, ↓reduceIte, List.take_nil, List.append_nil, Nat.add_zero]
      simp only [List.drop_nil, List.nil_append, List.length_nil, Nat.min_zero, Nat.add_zero] at h3
      exact Ev.pure _ u3 h3
  | succ n ih =>
    intro w hn fuel str tl u L C I N hw hx h
    cases fuel with
    | zero => left; exact ⟨_, rfl⟩
    | succ f =>
      unfold plainChunks
      apply Ev.bind (evp_bufmaxlen h)
      intro u1 h1
      apply Ev.bind (evp_lookahead K h1)
      intro u2 h2
      apply Ev.bind (evp_chunk (K - 1) w str tl u2 L C I N K hw hx h2)
      intro u3 h3
      by_cases hlt : w.length < K - 1
      · have : decide (w.length < K - 1) = true := by simpa using hlt
        simp only [this, ↓reduceIte]
        have ht : w.take (K - 1) = w := List.take_of_length_le (by omega)
        have hd : w.drop (K - 1) = [] := List.drop_of_length_le (by omega)
        rw [ht]
        rw [hd, Nat.min_eq_right (by omega)] at h3
        exact Ev.pure _ u3 h3
      · have : decide (w.length < K - 1) = false := by simpa using hlt
        simp only [this, Bool.false_eq_true, ↓reduceIte]
        have hmin : min (K - 1) w.length = K - 1 := Nat.min_eq_left (by omega)
        rw [hmin] at h3
        have hlen : (w.drop (K - 1)).length ≤ n := by simp only [List.length_drop]; omega
        have := ih (w.drop (K - 1)) hlen f (str ++ w.take (K - 1)) tl u3 L (C + (K - 1)) I N
          (fun c hc => hw c (List.mem_of_mem_drop hc)) hx h3
        have e1 : str ++ w = str ++ w.take (K - 1) ++ w.drop (K - 1) := by
          rw [List.append_assoc, List.take_append_drop]
        have e2 : C + w.length = C + (K - 1) + (w.drop (K - 1)).length := by
          simp only [List.length_drop]; omega
        rw [e1, e2]
        exact this

/-- **A run of blanks** after a word (not at the start of a line) is collected as pending white space -/
theorem evp_blanks (indent : Int) (sm : Marker) : ∀ (sp : Str) (fuel : Nat) (a : PlAcc) (y : Char) (rest : Str) (u : Sc) (L C : Nat) (I : Int) (N K : Nat),
    (∀ c ∈ sp, isBlank c = true) → isBlank y = false → isBreak y = false →
    AtP u (sp ++ y :: rest) L C I N false K →
    Ev (plainBlanks indent sm fuel a) u { a with whitespaces := a.whitespaces ++ sp }
      (fun u' => AtP u' (y :: rest) L (C + sp.length) I N false K) := by
  intro sp
  induction sp with
  | nil =>
    intro fuel a y rest u L C I N K _ hy1 hy2 h
    cases fuel with
    | zero => left; exact ⟨_, rfl⟩
    | succ f =>
      unfold plainBlanks
      simp only [List.nil_append] at h
      apply Ev.bind (evp_nextIs (fun c => isBlank c || isBreak c) false h)
      intro u1 h1
      simp only [ans, hy1, hy2, Bool.or_self, Bool.false_eq_true, ↓reduceIte, List.append_nil, List.length_nil, Nat.add_zero]
      exact Ev.pure' u1 (by cases a; rfl) h1
  | cons c sp ih =>
    intro fuel a y rest u L C I N K hsp hy1 hy2 h
    cases fuel with
    | zero => left; exact ⟨_, rfl⟩
    | succ f =>
      have hc : isBlank c = true := hsp c (by simp)
      unfold plainBlanks
      simp only [List.cons_append] at h
      apply Ev.bind (evp_nextIs (fun c => isBlank c || isBreak c) false h)
      intro u1 h1
      simp only [ans, hc, Bool.true_or, ↓reduceIte]
      apply Ev.bind (evp_nextIs isBlank false h1)
      intro u2 h2
      simp only [ans, hc, ↓reduceIte]
      apply Ev.getS_bind
      simp only [h2.lws, Bool.not_false, ↓reduceIte]
      apply Ev.bind (evp_peek h2)
      intro u3 h3
      apply Ev.bind (evp_skipBlank h3)
      intro u4 h4
      apply Ev.bind (evp_lookahead 2 h4)
      intro u5 h5
      have := ih f { a with whitespaces := a.whitespaces ++ [c] } y rest u5 L (C + 1) I N K
        (fun d hd => hsp d (by simp [hd])) hy1 hy2 h5
      simp only [List.length_cons, List.headD_cons]
      rw [show C + (sp.length + 1) = C + 1 + sp.length by omega]
      simpa [List.append_assoc] using this

theorem Ev.getMark_bind {β : Type} {f : Marker → S β} {u : Sc} {b : β} {P : Sc → Prop} (h : Ev (f u.mark) u b P) :
    Ev (getMark >>= f) u b P := by
  rcases h with ⟨p, hp⟩ | ⟨u', hok, hP⟩
  · left; exact ⟨p, by rw [bind_ok' (show getMark u = .ok (u.mark, u) from rfl)]; exact hp⟩
  · right; exact ⟨u', by rw [bind_ok' (show getMark u = .ok (u.mark, u) from rfl)]; exact hok, hP⟩

theorem Ev.toR {α : Type} {m : S α} {u : Sc} {a : α} {P : Sc → Prop} (h : Ev m u a P) : EvR m u (fun x u' => x = a ∧ P u') := by
  rcases h with h | ⟨u', hok, hP⟩
  · exact Or.inl h
  · exact Or.inr ⟨a, u', hok, rfl, hP⟩

/-- how the line ends: the input ends right after the text, or a line feed follows and the next line starts in
    column 0 with something that is not a blank or a break (or the input ends there) -/
def Ending (rest : Str) (I : Int) : Prop :=
  rest = [] ∨ ∃ r2, rest = '\n' :: r2 ∧ 0 ≤ I ∧ (r2 = [] ∨ ∃ y t, r2 = y :: t ∧ isBlank y = false ∧ isBreak y = false)

def finLine (rest : Str) (L : Nat) : Nat := match rest with | [] => L | _ => L + 1
def finCol (rest : Str) (C : Nat) : Nat := match rest with | [] => C | _ => 0
def finLw (rest : Str) : Bool := match rest with | [] => false | _ => true

/-- a line of a plain scalar: ordinary characters and blanks, starting and ending with an ordinary character -/
structure PlainLine (v : Str) : Prop where
  chars : ∀ c ∈ v, PlainCh c ∨ isBlank c = true
  head : ∃ c t, v = c :: t ∧ PlainCh c
  last : ∀ p c, v = p ++ [c] → isBlank c = false

theorem plainCh_not_blank {c : Char} (h : PlainCh c) : isBlank c = false := by
  have := h.1
  simp only [isBlankOrBreakz, Bool.or_eq_false_iff] at this
  exact this.1

theorem evp_skipBreak_lf {u : Sc} {it : Str} {L C : Nat} {I : Int} {N K : Nat} {lw : Bool} (h : AtP u ('\n' :: it) L C I N lw K) :
    Ev skipBreak u () (fun u' => AtP u' it (L + 1) 0 I N true K) := by
  apply Ev.ok (u' := nlS u it)
  · simp [skipBreak, Bind.bind, peek_str_eval u h.at_.kind, Sc.peekNth, Sc.liftI, In.peekNth, h.at_.kind, h.at_.iter, skipNl, In.skip,
      modS, Pure.pure, nlS]
  · refine ⟨⟨h.at_.kind, rfl, ?_, rfl, h.at_.indent, ?_⟩, h.flow, rfl, h.cap⟩
    · show u.mark.line + 1 = L + 1
      rw [h.at_.line]
    · show u.mark.index + 1 + it.length = N
      have := h.at_.off; simp only [List.length_cons] at this; omega

/-- the end of the line, after the last word -/
theorem evp_ending (sm : Marker) (fuel : Nat) (a : PlAcc) (rest : Str) (u : Sc) (L C : Nat) (I : Int) (N K : Nat)
    (hrest : Ending rest I) (h : AtP u rest L C I N false K) :
    EvR (do
        let isBlank ← liftI In.nextIsBlank
        let isBrk ← if isBlank then pure true else liftI In.nextIsBreak
        if !isBrk then pure a
        else do
          lookahead 2
          let s ← getS
          let a ← plainBlanks (I + 1) sm (s.inp.remaining + 2) a
          let s ← getS
          if s.flowLevel == 0 && (s.mark.col : Int) < (I + 1) then pure a
          else plainLoop (I + 1) sm fuel a) u
      (fun r u' => r.str = a.str ∧ r.endMark = a.endMark ∧
        AtP u' (rest.drop 1) (finLine rest L) (finCol rest C) I N (finLw rest) K) := by
  rcases hrest with rfl | ⟨r2, rfl, hI, hr2⟩
  · apply EvR.bindEv (evp_nextIs isBlank false h)
    intro u1 h1
    simp only [ans, Bool.false_eq_true, ↓reduceIte]
    apply EvR.bindEv (evp_nextIs isBreak false h1)
    intro u2 h2
    simp only [ans, Bool.not_false, ↓reduceIte]
    exact Or.inr ⟨a, u2, rfl, rfl, rfl, h2⟩
  · apply EvR.bindEv (evp_nextIs isBlank false h)
    intro u1 h1
    simp only [ans, show isBlank '\n' = false by decide, Bool.false_eq_true, ↓reduceIte]
    apply EvR.bindEv (evp_nextIs isBreak false h1)
    intro u2 h2
    simp only [ans, show isBreak '\n' = true by decide, Bool.not_true, Bool.false_eq_true, ↓reduceIte]
    apply EvR.bindEv (evp_lookahead 2 h2)
    intro u3 h3
    apply EvR.getS_bind
    have hpb : Ev (plainBlanks (I + 1) sm (u3.inp.remaining + 2) a) u3
        { a with whitespaces := [], leadingBreak := a.leadingBreak ++ ['\n'] }
        (fun u' => AtP u' r2 (L + 1) 0 I N true K) := by
      rw [show u3.inp.remaining + 2 = (u3.inp.remaining + 1) + 1 by omega]
      unfold plainBlanks
      apply Ev.bind (evp_nextIs (fun c => isBlank c || isBreak c) false h3)
      intro u4 h4
      simp only [ans, show (isBlank '\n' || isBreak '\n') = true by decide, ↓reduceIte]
      apply Ev.bind (evp_nextIs isBlank false h4)
      intro u5 h5
      simp only [ans, show isBlank '\n' = false by decide, Bool.false_eq_true, ↓reduceIte]
      apply Ev.getS_bind
      simp only [h5.lws, Bool.false_eq_true, ↓reduceIte]
      apply Ev.bind (evp_skipBreak_lf h5)
      intro u6 h6
      apply Ev.bind (Ev.ok (u' := u6) (P := fun u' => AtP u' r2 (L + 1) 0 I N true K) (by
        simp only [modS]; congr 2; have := h6.lws; cases u6; simp_all) h6)
      intro u7 h7
      apply Ev.bind (evp_lookahead 2 h7)
      intro u8 h8
      unfold plainBlanks
      apply Ev.bind (evp_nextIs (fun c => isBlank c || isBreak c) false h8)
      intro u9 h9
      have hno : ans (fun c => isBlank c || isBreak c) false r2 = false := by
        rcases hr2 with rfl | ⟨y, t, rfl, hy1, hy2⟩
        · rfl
        · simp [ans, hy1, hy2]
      simp only [hno, Bool.false_eq_true, ↓reduceIte]
      exact Ev.pure _ u9 h9
    apply EvR.bindEv hpb
    intro u10 h10
    apply EvR.getS_bind
    have hcond : (u10.flowLevel == 0 && decide ((u10.mark.col : Int) < I + 1)) = true := by
      rw [h10.flow, h10.at_.col]; simp; omega
    simp only [hcond, ↓reduceIte]
    exact Or.inr ⟨_, u10, rfl, rfl, rfl, h10⟩

theorem ans_bz_ending (rest : Str) (I : Int) (h : Ending rest I) : ans isBlankOrBreakz true rest = true := by
  rcases h with rfl | ⟨r2, rfl, _, _⟩
  · rfl
  · simp [ans]; decide

/-- **The line of a plain scalar.** -/
theorem evp_plainLoop (K : Nat) (hK : 2 ≤ K) (sm : Marker) : ∀ (n : Nat) (v : Str), v.length ≤ n →
    ∀ (fuel : Nat) (a : PlAcc) (rest : Str) (u : Sc) (L C : Nat) (I : Int) (N : Nat),
    PlainLine v → Ending rest I → I + 1 ≤ (C : Int) → a.leadingBreak = [] → a.trailingBreaks = [] →
    AtP u (v ++ rest) L C I N false K →
    EvR (plainLoop (I + 1) sm fuel a) u (fun r u' =>
      r.str = a.str ++ a.whitespaces ++ v ∧ r.endMark.line = L ∧ r.endMark.col = C + v.length ∧
      r.endMark.index + rest.length = N ∧
      AtP u' (rest.drop 1) (finLine rest L) (finCol rest (C + v.length)) I N (finLw rest) K) := by
  intro n
  induction n with
  | zero =>
    intro v hn fuel a rest u L C I N hv
    obtain ⟨c, t, rfl, _⟩ := hv.head
    simp at hn
  | succ n ih =>
    intro v hn fuel a rest u L C I N hv hrest hC hlb htb h
    cases fuel with
    | zero => left; exact ⟨_, rfl⟩
    | succ f =>
      obtain ⟨c0, t0, rfl, hc0⟩ := hv.head
      have hc0b : isBlank c0 = false := plainCh_not_blank hc0
      -- the first word and what follows it
      have hsplit : c0 :: t0 = (c0 :: t0).takeWhile (fun c => !isBlank c) ++ (c0 :: t0).dropWhile (fun c => !isBlank c) :=
        (List.takeWhile_append_dropWhile).symm
      have htw : (c0 :: t0).takeWhile (fun c => !isBlank c) = c0 :: t0.takeWhile (fun c => !isBlank c) := by
        simp [List.takeWhile_cons, hc0b]
      have hdw : (c0 :: t0).dropWhile (fun c => !isBlank c) = t0.dropWhile (fun c => !isBlank c) := by
        simp [List.dropWhile_cons, hc0b]
      rw [htw, hdw] at hsplit
      generalize hw : t0.takeWhile (fun c => !isBlank c) = w at hsplit
      generalize hr1 : t0.dropWhile (fun c => !isBlank c) = r1 at hsplit
      have ht0 : t0 = w ++ r1 := by simpa using hsplit
      have hww : ∀ c ∈ w, PlainCh c := by
        intro c hc
        rw [← hw] at hc
        have h1 := (takeWhile_all _ t0 c hc)
        rcases hv.chars c (by simp [h1.2]) with hp | hb
        · exact hp
        · have := h1.1; simp [hb] at this
      unfold plainLoop
      apply EvR.bindEv (evp_lookahead 4 h)
      intro u1 h1
      apply EvR.getS_bind
      simp only [h1.lws, Bool.false_eq_true, ↓reduceIte]
      apply EvR.bindEv (Ev.pure false u1 (P := fun u' => AtP u' (c0 :: t0 ++ rest) L C I N false K) h1)
      intro u2 h2
      apply EvR.bindEv (evp_peek h2)
      intro u3 h3
      have hc0h : (c0 == '#') = false := by simpa using hc0.2.2
      simp only [List.cons_append, List.headD_cons, hc0h, Bool.or_self, Bool.false_eq_true, ↓reduceIte]
      have hfl : decide (u1.flowLevel > 0) = false := by simp [h1.flow]
      simp only [hfl, Bool.false_and, Bool.false_eq_true, ↓reduceIte]
      apply EvR.bindEv (evp_peek h3)
      intro u3a h3a
      apply EvR.bindEv (evp_peekNth1 h3a)
      intro u3b h3b
      apply EvR.bindEv (evp_nextIs isBlankOrBreakz true h3b)
      intro u4 h4
      simp only [List.cons_append, ans, hc0.1, Bool.false_eq_true, ↓reduceIte]
      apply EvR.bindEv (evp_canBePlain hc0 h4)
      intro u5 h5
      simp only [↓reduceIte]
      generalize ha1 : (if (!List.isEmpty a.whitespaces) = true then
          ({ str := a.str ++ a.whitespaces, whitespaces := [], leadingBreak := a.leadingBreak,
             trailingBreaks := a.trailingBreaks, endMark := a.endMark } : PlAcc) else a) = a1
      have ha1s : a1.str = a.str ++ a.whitespaces ∧ a1.whitespaces = [] ∧ a1.leadingBreak = [] ∧ a1.trailingBreaks = [] := by
        rw [← ha1]
        cases hwe : a.whitespaces with
        | nil => simp [hwe, hlb, htb]
        | cons x xs => simp [hlb, htb]
      apply EvR.bindEv (evp_peek h5)
      intro u6 h6
      apply EvR.bindEv (evp_skipNonBlank h6)
      intro u7 h7
      apply EvR.getS_bind
      simp only [List.headD_cons]
      have htl : ans isBlankOrBreakz true (r1 ++ rest) = true := by
        cases r1 with
        | nil => simpa using ans_bz_ending rest I hrest
        | cons b r1' =>
          have hbb : isBlank b = true := by
            have := dropWhile_head (fun c => !isBlank c) t0 b r1' hr1
            simpa using this
          simp [ans, isBlankOrBreakz, hbb]
      have h7' : AtP u7 (w ++ (r1 ++ rest)) L (C + 1) I N false K := by
        rw [← List.append_assoc, ← ht0]; exact h7
      apply EvR.bindEv (evp_chunks K hK w.length w (Nat.le_refl _) _ (a1.str ++ [c0]) (r1 ++ rest) u7 L (C + 1) I N hww htl h7')
      intro u8 h8
      apply EvR.getMark_bind
      apply EvR.bindEv (Ev.pure _ u8 (P := fun u' => u' = u8) rfl)
      intro u9 h9
      subst h9
      rw [ha1s.2.1, ha1s.2.2.1, ha1s.2.2.2, ha1s.1]
      cases r1 with
      | nil =>
        -- the last word of the line
        simp only [List.nil_append] at h8
        have ht0w : t0 = w := by rw [ht0]; simp
        refine EvR.mono (evp_ending sm f _ rest u9 L _ I N K hrest h8) ?_
        intro r u' ⟨hr1', hr2', hr3'⟩
        have hlen : (c0 :: t0).length = 1 + w.length := by rw [ht0w]; simp; omega
        refine ⟨?_, ?_, ?_, ?_, ?_⟩
        · rw [hr1', ht0w]; simp [List.append_assoc]
        · rw [hr2']; exact h8.at_.line
        · rw [hr2', hlen]; show u9.mark.col = _; rw [h8.at_.col]; omega
        · rw [hr2']; exact h8.at_.off
        · rw [hlen, show C + (1 + w.length) = C + 1 + w.length by omega]; exact hr3'
      | cons b r1' =>
        have hbb : isBlank b = true := by
          have := dropWhile_head (fun c => !isBlank c) t0 b r1' hr1
          simpa using this
        generalize hsp : (b :: r1').takeWhile isBlank = sp
        generalize hv' : (b :: r1').dropWhile isBlank = v'
        have hr1s : b :: r1' = sp ++ v' := by rw [← hsp, ← hv']; exact (List.takeWhile_append_dropWhile).symm
        have hspb : ∀ c ∈ sp, isBlank c = true := by rw [← hsp]; exact fun c hc => (takeWhile_all _ _ c hc).1
        obtain ⟨sp', hsp'⟩ : ∃ sp', sp = b :: sp' := by
          rw [← hsp]; simp [List.takeWhile_cons, hbb]
        have hvfull : c0 :: t0 = (c0 :: w) ++ sp ++ v' := by rw [ht0, hr1s]; simp [List.append_assoc]
        -- the line does not end with a blank: something follows the blanks
        have hv'ne : v' ≠ [] := by
          intro e
          rw [e, List.append_nil] at hvfull
          have hne : sp ≠ [] := by rw [hsp']; simp
          have := hv.last ((c0 :: w) ++ sp.dropLast) (sp.getLast hne) (by
            rw [hvfull, List.append_assoc, List.dropLast_concat_getLast])
          have h2 := hspb (sp.getLast hne) (List.getLast_mem hne)
          rw [h2] at this; exact absurd this (by decide)
        obtain ⟨y, t, hyt⟩ : ∃ y t, v' = y :: t := by
          cases v' with
          | nil => exact absurd rfl hv'ne
          | cons y t => exact ⟨y, t, rfl⟩
        have hyb : isBlank y = false := dropWhile_blank_head (b :: r1') y t (by rw [hv', hyt])
        have hyp : PlainCh y := by
          rcases hv.chars y (by rw [hvfull, hyt]; simp) with hp | hb
          · exact hp
          · rw [hb] at hyb; exact absurd hyb (by decide)
        have hybr : isBreak y = false := by
          have := hyp.1
          simp only [isBlankOrBreakz, isBreakz, Bool.or_eq_false_iff] at this
          exact this.2.1
        have hpl' : PlainLine v' := by
          refine ⟨fun c hc => hv.chars c (by rw [hvfull]; simp [hc]), ⟨y, t, hyt, hyp⟩, ?_⟩
          intro p c hpc
          exact hv.last ((c0 :: w) ++ sp ++ p) c (by rw [hvfull, hpc]; simp [List.append_assoc])
        have hlen' : v'.length ≤ n := by
          have h1 : (c0 :: t0).length = (c0 :: w).length + sp.length + v'.length := by rw [hvfull]; simp [List.length_append]; omega
          have h2 : sp.length ≥ 1 := by rw [hsp']; simp
          simp only [List.length_cons] at h1 hn
          omega
        have h8' : AtP u9 (b :: (sp' ++ (v' ++ rest))) L (C + 1 + w.length) I N false K := by
          have : b :: r1' ++ rest = b :: (sp' ++ (v' ++ rest)) := by rw [hr1s, hsp']; simp [List.append_assoc]
          rw [← this]; exact h8
        apply EvR.bindEv (evp_nextIs isBlank false h8')
        intro u10 h10
        simp only [ans, hbb, ↓reduceIte]
        apply EvR.bindEv (Ev.pure true u10 (P := fun u' => AtP u' (b :: (sp' ++ (v' ++ rest))) L (C + 1 + w.length) I N false K) h10)
        intro u11 h11
        simp only [Bool.not_true, Bool.false_eq_true, ↓reduceIte]
        apply EvR.bindEv (evp_lookahead 2 h11)
        intro u12 h12
        apply EvR.getS_bind
        have h12' : AtP u12 (sp ++ y :: (t ++ rest)) L (C + 1 + w.length) I N false K := by
          rw [hsp']; simpa [hyt, List.append_assoc] using h12
        apply EvR.bindEv (evp_blanks (I + 1) sm sp _ _ y (t ++ rest) u12 L _ I N K hspb hyb hybr h12')
        intro u13 h13
        apply EvR.getS_bind
        have hcond : (u13.flowLevel == 0 && decide ((u13.mark.col : Int) < I + 1)) = false := by
          rw [h13.flow, h13.at_.col]; simp; omega
        simp only [hcond, Bool.false_eq_true, ↓reduceIte]
        have h13' : AtP u13 (v' ++ rest) L (C + 1 + w.length + sp.length) I N false K := by
          rw [hyt]; simpa using h13
        refine EvR.mono (ih v' hlen' f _ rest u13 L _ I N hpl' hrest (by omega) rfl rfl h13') ?_
        intro r u' ⟨q1, q2, q3, q4, q5⟩
        have hl : (c0 :: t0).length = 1 + w.length + sp.length + v'.length := by
          rw [hvfull]; simp [List.length_append]; omega
        refine ⟨?_, q2, ?_, q4, ?_⟩
        · rw [q1, hvfull]; simp [List.append_assoc]
        · rw [q3, hl]; omega
        · rw [hl, show C + (1 + w.length + sp.length + v'.length) = C + 1 + w.length + sp.length + v'.length by omega]; exact q5

/-- **A whole plain scalar on one line** (block context, in the value position: not at the start of its line).
    The text is words of ordinary characters separated by blanks; the line ends there (end of input), or a line
    feed follows and the next line starts in column 0. The token is a plain scalar with exactly that text; its
    span starts where the scanner stood and ends right after the last character of the text. -/
theorem plain_line_token (K : Nat) (hK : 2 ≤ K) (v rest : Str) (hv : PlainLine v) (u : Sc) (L C : Nat) (I : Int) (N : Nat)
    (hrest : Ending rest I) (hC : I + 1 ≤ (C : Int)) (h : AtP u (v ++ rest) L C I N false K) :
    EvR scanPlainScalarBody u (fun tok u' =>
      tok.ty = .scalar .plain v ∧ tok.span.start = u.mark ∧ tok.span.stop.line = L ∧ tok.span.stop.col = C + v.length ∧
      tok.span.stop.index + rest.length = N ∧
      u'.inp.iter = rest.drop 1 ∧ u'.mark.line = finLine rest L ∧ u'.mark.col = finCol rest (C + v.length)) := by
  unfold scanPlainScalarBody
  apply EvR.getS_bind
  have hfl : decide (u.flowLevel > 0) = false := by simp [h.flow]
  simp only [hfl, Bool.false_and, Bool.false_eq_true, ↓reduceIte]
  rw [h.at_.indent]
  apply EvR.bind (evp_plainLoop K hK u.mark v.length v (Nat.le_refl _) _ ⟨[], [], [], [], u.mark⟩ rest u L C I N hv hrest hC rfl rfl h)
  intro a u1 ⟨q1, q2, q3, q4, q5⟩
  apply EvR.getS_bind
  have hne : a.str.isEmpty = false := by
    obtain ⟨c, t, hct, _⟩ := hv.head
    rw [q1, hct]; simp
  have hfin : ∀ u2 : Sc, u2.inp.iter = rest.drop 1 → u2.mark.line = finLine rest L → u2.mark.col = finCol rest (C + v.length) →
      EvR (if a.str.isEmpty = true then err u.mark "unexpected end of plain scalar"
           else (Pure.pure ⟨⟨u.mark, a.endMark⟩, .scalar .plain a.str⟩ : S Token)) u2 (fun tok u' =>
        tok.ty = .scalar .plain v ∧ tok.span.start = u.mark ∧ tok.span.stop.line = L ∧ tok.span.stop.col = C + v.length ∧
        tok.span.stop.index + rest.length = N ∧
        u'.inp.iter = rest.drop 1 ∧ u'.mark.line = finLine rest L ∧ u'.mark.col = finCol rest (C + v.length)) := by
    intro u2 e1 e2 e3
    simp only [hne, Bool.false_eq_true, ↓reduceIte]
    refine Or.inr ⟨_, u2, rfl, ?_, rfl, q2, q3, q4, e1, e2, e3⟩
    show TokenType.scalar .plain a.str = _
    rw [q1]; simp
  cases hlw : u1.leadingWhitespace with
  | false =>
    simp only [Bool.false_eq_true, ↓reduceIte]
    exact hfin u1 q5.at_.iter q5.at_.line q5.at_.col
  | true =>
    simp only [↓reduceIte]
    apply EvR.bindEv (Ev.ok (m := allowSimpleKey) (u := u1) (a := ()) (u' := { u1 with simpleKeyAllowed := true })
      (P := fun u' => u' = { u1 with simpleKeyAllowed := true }) rfl rfl)
    intro u2 e; subst e
    exact hfin _ q5.at_.iter q5.at_.line q5.at_.col

end SaphyrModel.C04P
