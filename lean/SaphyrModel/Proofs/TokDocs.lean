import SaphyrModel.Proofs.TokTree
/-! Multi-document token streams: the parser handles each document on its own (used by Props/C15). -/
namespace SaphyrModel.TokTree
open SaphyrModel

/-- a document as tokens: an optional `---`, a node, an optional `...` -/
structure Doc where
  start : Option Span      -- span of the DocumentStart token, if the document is explicit
  root : TT
  stop : Option Span       -- span of the DocumentEnd token, if there is one

def Doc.toks (d : Doc) : List Token :=
  (match d.start with | some sp => [⟨sp, .documentStart⟩] | none => []) ++ d.root.toks ++
  (match d.stop with | some sp => [⟨sp, .documentEnd⟩] | none => [])

def docsToks : List Doc → List Token
  | [] => []
  | d :: ds => d.toks ++ docsToks ds

/-- a bare document may only follow a document that was closed by `...` -/
def legal : Bool → List Doc → Bool
  | _, [] => true
  | afterMarker, d :: ds => (d.start.isSome || afterMarker) && d.root.wf && legal d.stop.isSome ds

theorem tagsExtend_nil (t : List (Str × Str)) : tagsExtend t [] = t := rfl

/-- the state between documents: what came before left nothing but the token position -/
def Between (p : PState) (afterMarker : Bool) (toks : List Token) : PState :=
  at' p toks (if afterMarker then .implicitDocumentStart else .documentStart) []

-- single steps at document boundaries, for any base state ---------------------------------------------------

theorem explicit_doc_step (p : PState) (st : State) (hst : st = .implicitDocumentStart ∨ st = .documentStart)
    (sp : Span) (rest : List Token) :
    parseStep (at' p (⟨sp, .documentStart⟩ :: rest) st []) =
      .ok (.documentStart true, sp, at' p rest .documentContent [.documentEnd]) := by
  rcases hst with rfl | rfl <;>
    simp [parseStep, documentStart, explicitDocumentStart, skipDocEnds, peekTok, skipTok, processDirectives,
      directivesLoop, tagsExtend, pushState, Bind.bind, Pure.pure, at']

theorem implicit_doc_step' (p : PState) (tok : Token) (tl : List Token) (h : nodeStart tok.ty = true) :
    parseStep (at' p (tok :: tl) .implicitDocumentStart []) =
      .ok (.documentStart false, tok.span, at' p (tok :: tl) .blockNode [.documentEnd]) :=
  implicit_doc_step p tok tl h

theorem doc_content_step (p : PState) (tok : Token) (tl : List Token) (sts : List State) (h : nodeStart tok.ty = true) :
    parseStep (at' p (tok :: tl) .documentContent sts) = parseNode (at' p (tok :: tl) .documentContent sts) true false := by
  obtain ⟨sp0, ty0⟩ := tok
  cases ty0 <;> simp [nodeStart] at h <;> simp [parseStep, documentContent, peekTok, Bind.bind, at']

theorem doc_end_marker_step (p : PState) (sp : Span) (rest : List Token) :
    parseStep (at' p (⟨sp, .documentEnd⟩ :: rest) .documentEnd []) =
      .ok (.documentEnd, sp, at' (clearAnchors (clearTags p)) rest .implicitDocumentStart []) := by
  cases hk : p.keepTags <;>
    simp [parseStep, at', documentEnd, peekTok, skipTok, Bind.bind, Pure.pure, clearTags, clearAnchors, hk]

theorem doc_end_implicit_step (p : PState) (tok : Token) (rest : List Token)
    (h : tok.ty = .documentStart ∨ tok.ty = .streamEnd) :
    parseStep (at' p (tok :: rest) .documentEnd []) =
      .ok (.documentEnd, tok.span, at' (clearAnchors (clearTags p)) (tok :: rest) .documentStart []) := by
  obtain ⟨sp0, ty0⟩ := tok
  cases hk : p.keepTags <;> rcases h with h | h <;> simp at h <;> subst h <;>
    simp [parseStep, at', documentEnd, peekTok, Bind.bind, Pure.pure, clearTags, clearAnchors, hk]

theorem stream_end_step' (p : PState) (st : State) (hst : st = .implicitDocumentStart ∨ st = .documentStart)
    (se : Span) (rest : List Token) :
    parseStep (at' p (⟨se, .streamEnd⟩ :: rest) st []) = .ok (.streamEnd, se, at' p rest .end []) := by
  rcases hst with rfl | rfl <;>
    simp [parseStep, documentStart, skipDocEnds, peekTok, skipTok, Bind.bind, Pure.pure, at']

-- one document -----------------------------------------------------------------------------------------------

/-- the events of a document, given the span the parser uses for an implicit start / end -/
def Doc.events (d : Doc) (implStart implEnd : Span) : List Ev :=
  (.documentStart d.start.isSome, d.start.getD implStart) :: (d.root.events ++ [(.documentEnd, d.stop.getD implEnd)])

/-- what must follow a document that has no `...`: a `---` or the end of the stream -/
def endsDoc (d : Doc) (rest : List Token) : Prop :=
  d.stop.isSome = true ∨ ∃ tk tl, rest = tk :: tl ∧ (tk.ty = .documentStart ∨ tk.ty = .streamEnd)

theorem doc_parses (d : Doc) (hw : d.root.wf = true) (p : PState) (am : Bool) (hs : d.start.isSome = true ∨ am = true)
    (rest : List Token) (he : endsDoc d rest) :
    ∃ sp1 sp2 p', steps (d.root.events.length + 2) (Between p am (d.toks ++ rest)) =
      .ok (d.events sp1 sp2, Between p' d.stop.isSome rest) := by
  obtain ⟨tok, tl, htk, hn⟩ := TT.toks_head d.root
  have hst : (if am = true then State.implicitDocumentStart else State.documentStart) = .implicitDocumentStart ∨
      (if am = true then State.implicitDocumentStart else State.documentStart) = .documentStart := by
    cases am <;> simp
  -- the part after the DocumentStart event: the root node, then DocumentEnd
  have hbody : ∀ (st0 : State) (q : PState) (hq : ∀ r, parseStep (at' q (d.root.toks ++ r) st0 [.documentEnd]) =
        parseNode (at' q (d.root.toks ++ r) st0 [.documentEnd]) true false),
      ∃ sp2 p', steps (d.root.events.length + 1)
        (at' q (d.root.toks ++ ((match d.stop with | some sp => [⟨sp, .documentEnd⟩] | none => []) ++ rest)) st0 [.documentEnd]) =
        .ok (d.root.events ++ [(.documentEnd, d.stop.getD sp2)], Between p' d.stop.isSome rest) := by
    intro st0 q hq
    have hnode := run_node (TT.parses d.root hw true (Or.inl rfl)) q false
      ((match d.stop with | some sp => [⟨sp, .documentEnd⟩] | none => []) ++ rest) st0 .documentEnd [] (hq _)
    cases hstop : d.stop with
    | some sp =>
      simp only [hstop, List.singleton_append] at hnode ⊢
      exact ⟨sp, _, steps_append hnode (steps_one (doc_end_marker_step q sp rest))⟩
    | none =>
      simp only [hstop, List.nil_append] at hnode ⊢
      rcases he with h | ⟨tk, tl', hr, hty⟩
      · rw [hstop] at h; simp at h
      · subst hr
        exact ⟨tk.span, _, steps_append hnode (steps_one (doc_end_implicit_step q tk tl' hty))⟩
  cases hstart : d.start with
  | some sp =>
    -- explicit document
    have h1 := explicit_doc_step p _ hst sp (d.root.toks ++ ((match d.stop with | some sp => [⟨sp, .documentEnd⟩] | none => []) ++ rest))
    obtain ⟨sp2, p', h2⟩ := hbody .documentContent p (by
      intro r; rw [htk]; exact doc_content_step p tok _ _ hn)
    refine ⟨sp, sp2, p', ?_⟩
    have := steps_cons h1 h2
    simp only [Doc.events, hstart, Option.isSome_some, Option.getD_some]
    simpa [Between, Doc.toks, hstart, List.append_assoc] using this
  | none =>
    -- bare document: only after a `...` (or at the start of the stream)
    have ham : am = true := by rcases hs with h | h; rw [hstart] at h; simp at h; exact h
    subst ham
    have h1 : parseStep (at' p (d.root.toks ++ ((match d.stop with | some sp => [⟨sp, .documentEnd⟩] | none => []) ++ rest)) .implicitDocumentStart []) =
        .ok (.documentStart false, tok.span, at' p (d.root.toks ++ ((match d.stop with | some sp => [⟨sp, .documentEnd⟩] | none => []) ++ rest)) .blockNode [.documentEnd]) := by
      rw [htk]; exact implicit_doc_step p tok _ hn
    obtain ⟨sp2, p', h2⟩ := hbody .blockNode p (by intro r; simp [parseStep])
    refine ⟨tok.span, sp2, p', ?_⟩
    have := steps_cons h1 h2
    simp only [Doc.events, hstart, Option.isSome_none, Option.getD_none]
    simpa [Between, Doc.toks, hstart, List.append_assoc] using this

-- a stream of documents ---------------------------------------------------------------------------------------

/-- `evs` are the events of the documents `ds`, one after the other (implicit start/end events take
    their span from a neighbouring token, which is left open here) -/
inductive DocsEvents : List Doc → List Ev → Prop
  | nil : DocsEvents [] []
  | cons {d : Doc} {ds : List Doc} {es : List Ev} (s1 s2 : Span) :
      DocsEvents ds es → DocsEvents (d :: ds) (d.events s1 s2 ++ es)

def docsSteps : List Doc → Nat
  | [] => 0
  | d :: ds => (d.root.events.length + 2) + docsSteps ds

theorem DocsEvents.append {a b : List Doc} {ea eb : List Ev} (ha : DocsEvents a ea) (hb : DocsEvents b eb) :
    DocsEvents (a ++ b) (ea ++ eb) := by
  induction ha with
  | nil => simpa using hb
  | cons s1 s2 _ ih => rw [List.cons_append, List.append_assoc]; exact DocsEvents.cons s1 s2 ih

theorem docsToks_head (d : Doc) (ds : List Doc) (rest : List Token) (hs : d.start.isSome = true) :
    ∃ tk tl, docsToks (d :: ds) ++ rest = tk :: tl ∧ tk.ty = .documentStart := by
  cases hst : d.start with
  | none => rw [hst] at hs; simp at hs
  | some sp =>
    refine ⟨⟨sp, .documentStart⟩, d.root.toks ++ ((match d.stop with | some sp => [⟨sp, .documentEnd⟩] | none => []) ++ (docsToks ds ++ rest)), ?_, rfl⟩
    simp [docsToks, Doc.toks, hst, List.append_assoc]

/-- **Documents are parsed one by one.** From the state between two documents, the tokens of any legal
    list of documents followed by StreamEnd produce the events of those documents in order; each
    document is handled by `doc_parses` from a state that carries nothing of its predecessors but
    the token position. -/
theorem docs_parse (ds : List Doc) : ∀ (p : PState) (am : Bool), legal am ds = true →
    ∀ (se : Span) (tl : List Token), ∃ evs p' am',
      steps (docsSteps ds) (Between p am (docsToks ds ++ ⟨se, .streamEnd⟩ :: tl)) =
        .ok (evs, Between p' am' (⟨se, .streamEnd⟩ :: tl)) ∧ DocsEvents ds evs := by
  induction ds with
  | nil => intro p am _ se tl; exact ⟨[], p, am, rfl, DocsEvents.nil⟩
  | cons d ds ih =>
    intro p am hl se tl
    simp only [legal, Bool.and_eq_true, Bool.or_eq_true] at hl
    obtain ⟨⟨hs, hw⟩, hrest⟩ := hl
    -- what follows this document
    have he : endsDoc d (docsToks ds ++ ⟨se, .streamEnd⟩ :: tl) := by
      by_cases hstop : d.stop.isSome = true
      · exact Or.inl hstop
      · right
        cases ds with
        | nil => exact ⟨⟨se, .streamEnd⟩, tl, rfl, Or.inr rfl⟩
        | cons d2 ds2 =>
          have hl2 := hrest
          simp only [legal, Bool.and_eq_true, Bool.or_eq_true] at hl2
          have hs2 : d2.start.isSome = true := by
            rcases hl2.1.1 with h | h
            · exact h
            · exact absurd h hstop
          obtain ⟨tk, tl2, h1, h2⟩ := docsToks_head d2 ds2 (⟨se, .streamEnd⟩ :: tl) hs2
          exact ⟨tk, tl2, h1, Or.inl h2⟩
    obtain ⟨s1, s2, p1, h1⟩ := doc_parses d hw p am hs _ he
    obtain ⟨evs, p2, am2, h2, hev⟩ := ih p1 d.stop.isSome hrest se tl
    refine ⟨d.events s1 s2 ++ evs, p2, am2, ?_, DocsEvents.cons s1 s2 hev⟩
    have := steps_append h1 h2
    simpa [docsToks, docsSteps, List.append_assoc] using this

/-- a whole stream of documents, from a fresh parser -/
theorem stream_docs_parse (ds : List Doc) (hl : legal true ds = true) (ss se : Span) (eof : Marker) (keep : Bool) :
    ∃ evs pf, steps (docsSteps ds + 2)
        (PState.init (⟨ss, .streamStart⟩ :: (docsToks ds ++ [⟨se, .streamEnd⟩])) none eof keep) =
        .ok ((.streamStart, ss) :: (evs ++ [(.streamEnd, se)]), pf) ∧ DocsEvents ds evs ∧ pf.state = .end := by
  let p0 := PState.init (⟨ss, .streamStart⟩ :: (docsToks ds ++ [⟨se, .streamEnd⟩])) none eof keep
  have hp0 : p0 = at' p0 (⟨ss, .streamStart⟩ :: (docsToks ds ++ [⟨se, .streamEnd⟩])) .streamStart [] := rfl
  have h1 := stream_start_step p0 ss (docsToks ds ++ [⟨se, .streamEnd⟩]) []
  obtain ⟨evs, p', am', h2, hev⟩ := docs_parse ds p0 true hl se []
  have hst : (if am' = true then State.implicitDocumentStart else State.documentStart) = .implicitDocumentStart ∨
      (if am' = true then State.implicitDocumentStart else State.documentStart) = .documentStart := by
    cases am' <;> simp
  have h3 := stream_end_step' p' _ hst se []
  have h23 := steps_append h2 (steps_one h3)
  have hall := steps_cons (p := p0) (by rw [hp0]; exact h1) h23
  refine ⟨evs, at' p' [] .end [], ?_, hev, rfl⟩
  have : docsSteps ds + 2 = docsSteps ds + 1 + 1 := by omega
  rw [this]; exact hall

end SaphyrModel.TokTree
