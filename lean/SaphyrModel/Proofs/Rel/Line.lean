import SaphyrModel.Proofs.Rel.GenScan1
/-! `scan_block_scalar_content_line`: a content line is read from the look-ahead buffer while it has
characters and then — if the buffer ran empty before the line ended — character by character
straight from the underlying iterator (`raw_read_non_breakz_ch`), the position being advanced at the
end. On a string input only one of the two paths is ever taken. Both back-ends read exactly the
characters up to the next break or the end. -/
set_option linter.unusedSimpArgs false
namespace SaphyrModel.C10
open SaphyrModel SaphyrModel.Sc

def nb (c : Char) : Bool := !isBreakz c

/-- `s` with another input and the position moved `n` characters along the line -/
def advS (s : Sc) (n : Nat) (i : In) : Sc :=
  { s with inp := i, mark := ⟨s.mark.index + n, s.mark.line, s.mark.col + n⟩ }

theorem advS_zero (s : Sc) : advS s 0 s.inp = s := by cases s; simp [advS]
theorem advS_advS (s : Sc) (a b : Nat) (i j : In) : advS (advS s a i) b j = advS s (a + b) j := by
  simp [advS, Nat.add_assoc]

/-- lists that agree position by position (NUL beyond the end) have the same line and the same rest -/
theorem same_line : ∀ (l1 l2 : Str), (∀ n, l1.getD n '\x00' = l2.getD n '\x00') →
    l1.takeWhile nb = l2.takeWhile nb ∧ ∀ n, (l1.dropWhile nb).getD n '\x00' = (l2.dropWhile nb).getD n '\x00' := by
  intro l1
  induction l1 with
  | nil =>
    intro l2 h
    cases l2 with
    | nil => simp
    | cons b r =>
      have hb : b = '\x00' := by simpa [List.getD_eq_getElem?_getD] using (h 0).symm
      subst hb
      have : nb '\x00' = false := by decide
      simp only [List.takeWhile_nil, List.dropWhile_nil, List.takeWhile_cons, List.dropWhile_cons, this]
      exact ⟨rfl, fun n => by simpa using h n⟩
  | cons a t ih =>
    intro l2 h
    cases l2 with
    | nil =>
      have ha : a = '\x00' := by simpa [List.getD_eq_getElem?_getD] using h 0
      subst ha
      have : nb '\x00' = false := by decide
      simp only [List.takeWhile_nil, List.dropWhile_nil, List.takeWhile_cons, List.dropWhile_cons, this]
      exact ⟨rfl, fun n => by simpa using h n⟩
    | cons b r =>
      have hab : a = b := by simpa [List.getD_eq_getElem?_getD] using h 0
      subst hab
      have ht : ∀ n, t.getD n '\x00' = r.getD n '\x00' := fun n => by
        simpa [List.getD_eq_getElem?_getD] using h (n + 1)
      by_cases hn : nb a = true
      · obtain ⟨h1, h2⟩ := ih r ht
        simp only [List.takeWhile_cons, List.dropWhile_cons, hn, if_true]
        exact ⟨by rw [h1], h2⟩
      · have hn' : nb a = false := by simpa using hn
        simp only [List.takeWhile_cons, List.dropWhile_cons, hn']
        exact ⟨rfl, h⟩

-- the string side -------------------------------------------------------------------------------------

theorem skipBlank_str_eval (s : Sc) (hk : s.inp.kind = .str) :
    skipBlank s = .ok ((), advS s 1 { s.inp with iter := s.inp.iter.tail }) := by
  simp [skipBlank, Sc.liftI, In.skip, hk, advance, modS, Bind.bind, advS]

theorem nextIsBreakz_str_eval (s : Sc) (hk : s.inp.kind = .str) :
    Sc.liftI In.nextIsBreakz s = .ok ((match s.inp.iter with | [] => true | c :: _ => isBreakz c), s) := by
  simp only [Sc.liftI, In.nextIsBreakz, In.nextIs, hk]
  cases s.inp.iter <;> rfl

theorem peek_str_eval (s : Sc) (hk : s.inp.kind = .str) : Sc.peek s = .ok (s.inp.iter.headD '\x00', s) := by
  simp [Sc.peek, Sc.liftI, In.peek, hk]

/-- one iteration of the buffered loop, as an equation between outcomes -/
theorem clb_step (f : Nat) (str : Str) (s : Sc) :
    contentLineBuffered (f + 1) str s =
      if s.inp.bufIsEmpty = true then .ok (str, s)
      else match Sc.liftI In.nextIsBreakz s with
        | .ok (b, s1) =>
          if b = true then .ok (str, s1)
          else match Sc.peek s1 with
            | .ok (c, s2) => (match skipBlank s2 with
              | .ok (_, s3) => contentLineBuffered f (str ++ [c]) s3
              | .err e => .err e | .panic p => .panic p)
            | .err e => .err e | .panic p => .panic p
        | .err e => .err e | .panic p => .panic p := by
  conv => lhs; unfold contentLineBuffered
  simp only [Bind.bind, getS]
  cases hb : s.inp.bufIsEmpty <;> simp only [hb, Bool.false_eq_true, ↓reduceIte]
  · rcases Sc.liftI In.nextIsBreakz s with ⟨⟨b, s1⟩⟩ | _ | _
    · simp only
      cases b <;> simp only [Bool.false_eq_true, ↓reduceIte]
      · rcases Sc.peek s1 with ⟨⟨c, s2⟩⟩ | _ | _
        · simp only
          rcases skipBlank s2 with ⟨⟨_, s3⟩⟩ | _ | _ <;> rfl
        · rfl
        · rfl
      · rfl
    · rfl
    · rfl
  · rfl

/-- with look-ahead requested before (`la ≠ 0`), the buffered loop reads the whole line on a string input -/
theorem bufLoop_str : ∀ (fuel : Nat) (str : Str) (s : Sc), s.inp.kind = .str → s.inp.la ≠ 0 →
    (∃ p, contentLineBuffered fuel str s = .panic p) ∨
    contentLineBuffered fuel str s = .ok (str ++ s.inp.iter.takeWhile nb,
      advS s (s.inp.iter.takeWhile nb).length { s.inp with iter := s.inp.iter.dropWhile nb }) := by
  intro fuel
  induction fuel with
  | zero => intro str s _ _; left; exact ⟨_, rfl⟩
  | succ f ih =>
    intro str s hk hla
    have hbe : s.inp.bufIsEmpty = false := by simp [In.bufIsEmpty, In.buflen, hk, hla]
    rw [clb_step, hbe, nextIsBreakz_str_eval s hk]
    simp only [Bool.false_eq_true, ↓reduceIte]
    cases hi : s.inp.iter with
    | nil =>
      right
      simp only [↓reduceIte, List.takeWhile_nil, List.append_nil, List.length_nil, List.dropWhile_nil]
      have : ({ s.inp with iter := [] } : In) = s.inp := by cases hs : s.inp; simp_all
      rw [this, advS_zero]
    | cons c r =>
      simp only
      by_cases hc : isBreakz c = true
      · right
        have hn : nb c = false := by simp [nb, hc]
        simp only [hc, ↓reduceIte, List.takeWhile_cons, List.dropWhile_cons, hn, List.append_nil, List.length_nil,
          Bool.false_eq_true]
        have : ({ s.inp with iter := c :: r } : In) = s.inp := by cases hs : s.inp; simp_all
        rw [this, advS_zero]
      · have hc' : isBreakz c = false := by simpa using hc
        have hn : nb c = true := by simp [nb, hc']
        simp only [hc', Bool.false_eq_true, ↓reduceIte, peek_str_eval s hk, skipBlank_str_eval s hk, hi, List.headD_cons,
          List.tail_cons]
        have hk1 : (advS s 1 { s.inp with iter := r }).inp.kind = .str := hk
        have hla1 : (advS s 1 { s.inp with iter := r }).inp.la ≠ 0 := hla
        rcases ih (str ++ [c]) (advS s 1 { s.inp with iter := r }) hk1 hla1 with ⟨p, hp⟩ | hok
        · left; exact ⟨p, hp⟩
        · right
          rw [hok]
          simp only [List.takeWhile_cons, List.dropWhile_cons, hn, ↓reduceIte, advS_advS, List.length_cons]
          simp [advS, Nat.add_comm]

theorem clr_step (f : Nat) (line : Str) (s : Sc) :
    contentLineRaw (f + 1) line s =
      match Sc.liftI In.rawReadNonBreakzCh s with
      | .ok (some c, s1) => contentLineRaw f (line ++ [c]) s1
      | .ok (none, s1) => .ok (line, s1)
      | .err e => .err e | .panic p => .panic p := by
  conv => lhs; unfold contentLineRaw
  simp only [Bind.bind]
  rcases Sc.liftI In.rawReadNonBreakzCh s with ⟨⟨o, s1⟩⟩ | _ | _
  · cases o <;> rfl
  · rfl
  · rfl

theorem rawRead_str_eval (s : Sc) (hk : s.inp.kind = .str) :
    Sc.liftI In.rawReadNonBreakzCh s = match s.inp.iter with
      | [] => .ok (none, s)
      | c :: r => if isBreakz c = true then .ok (none, s) else .ok (some c, { s with inp := { s.inp with iter := r } }) := by
  simp only [Sc.liftI, In.rawReadNonBreakzCh]
  cases hi : s.inp.iter with
  | nil => simp
  | cons c r =>
    by_cases hc : isBreakz c = true
    · simp [hc, hk]
    · simp [hc]

/-- the raw loop on a string input reads the rest of the line (the position is advanced afterwards) -/
theorem rawLoop_str : ∀ (fuel : Nat) (line : Str) (s : Sc), s.inp.kind = .str →
    (∃ p, contentLineRaw fuel line s = .panic p) ∨
    contentLineRaw fuel line s = .ok (line ++ s.inp.iter.takeWhile nb,
      { s with inp := { s.inp with iter := s.inp.iter.dropWhile nb } }) := by
  intro fuel
  induction fuel with
  | zero => intro line s _; left; exact ⟨_, rfl⟩
  | succ f ih =>
    intro line s hk
    rw [clr_step, rawRead_str_eval s hk]
    cases hi : s.inp.iter with
    | nil =>
      right
      simp only [List.takeWhile_nil, List.append_nil, List.dropWhile_nil]
      have : ({ s.inp with iter := [] } : In) = s.inp := by cases hs : s.inp; simp_all
      rw [this]
    | cons c r =>
      simp only
      by_cases hc : isBreakz c = true
      · right
        have hn : nb c = false := by simp [nb, hc]
        simp only [hc, ↓reduceIte, List.takeWhile_cons, List.dropWhile_cons, hn, List.append_nil, Bool.false_eq_true]
        have : ({ s.inp with iter := c :: r } : In) = s.inp := by cases hs : s.inp; simp_all
        rw [this]
      · have hc' : isBreakz c = false := by simpa using hc
        have hn : nb c = true := by simp [nb, hc']
        simp only [hc', Bool.false_eq_true, ↓reduceIte]
        rcases ih (line ++ [c]) { s with inp := { s.inp with iter := r } } hk with ⟨p, hp⟩ | hok
        · left; exact ⟨p, hp⟩
        · right
          rw [hok]
          simp [List.takeWhile_cons, List.dropWhile_cons, hn]

/-- `scan_block_scalar_content_line` as an equation between outcomes -/
theorem sbl_eq (str : Str) (s : Sc) :
    scanBlockScalarContentLine str s =
      match contentLineBuffered (s.inp.remaining + 2) str s with
      | .ok (str1, s1) =>
        if s1.inp.bufIsEmpty = true then
          match contentLineRaw (s1.inp.remaining + 2) [] s1 with
          | .ok (line, s2) => .ok (str1 ++ line, advS s2 line.length s2.inp)
          | .err e => .err e | .panic p => .panic p
        else .ok (str1, s1)
      | .err e => .err e | .panic p => .panic p := by
  conv => lhs; unfold scanBlockScalarContentLine
  simp only [Bind.bind, getS]
  rcases contentLineBuffered (s.inp.remaining + 2) str s with ⟨⟨str1, s1⟩⟩ | _ | _
  · simp only
    cases hb : s1.inp.bufIsEmpty <;> simp only [Bool.false_eq_true, ↓reduceIte]
    · rfl
    · rcases contentLineRaw (s1.inp.remaining + 2) [] s1 with ⟨⟨line, s2⟩⟩ | _ | _
      · simp [advance, modS, advS, Pure.pure]
      · rfl
      · rfl
  · rfl
  · rfl

/-- **string side**: the content line is read up to the next break or the end, whichever path is taken -/
theorem line_str (str : Str) (s : Sc) (hk : s.inp.kind = .str) :
    (∃ p, scanBlockScalarContentLine str s = .panic p) ∨
    scanBlockScalarContentLine str s = .ok (str ++ s.inp.iter.takeWhile nb,
      advS s (s.inp.iter.takeWhile nb).length { s.inp with iter := s.inp.iter.dropWhile nb }) := by
  rw [sbl_eq]
  by_cases hla : s.inp.la = 0
  · -- nothing was ever requested: the buffered loop stops at once, the raw loop reads the line
    have hbe : s.inp.bufIsEmpty = true := by simp [In.bufIsEmpty, In.buflen, hk, hla]
    have h1 : contentLineBuffered (s.inp.remaining + 2) str s = .ok (str, s) := by
      rw [show s.inp.remaining + 2 = (s.inp.remaining + 1) + 1 by omega, clb_step, hbe]; rfl
    rw [h1]
    simp only [hbe, ↓reduceIte]
    rcases rawLoop_str (s.inp.remaining + 2) [] s hk with ⟨p, hp⟩ | hok
    · left; rw [hp]; exact ⟨p, rfl⟩
    · right; rw [hok]; simp [advS]
  · rcases bufLoop_str (s.inp.remaining + 2) str s hk hla with ⟨p, hp⟩ | hok
    · left; rw [hp]; exact ⟨p, rfl⟩
    · right
      rw [hok]
      have : (advS s (s.inp.iter.takeWhile nb).length { s.inp with iter := s.inp.iter.dropWhile nb }).inp.bufIsEmpty = false := by
        simp [advS, In.bufIsEmpty, In.buflen, hk, hla]
      simp only [this, Bool.false_eq_true, ↓reduceIte]

-- the buffered side -----------------------------------------------------------------------------------

theorem bufIsEmpty_buf (i : In) (hk : i.kind = .buf) : i.bufIsEmpty = i.buf.isEmpty := by
  simp [In.bufIsEmpty, In.buflen, hk]
  cases i.buf <;> simp

theorem nextIsBreakz_buf_eval (t : Sc) (hk : t.inp.kind = .buf) (c : Char) (r : Str) (hb : t.inp.buf = c :: r) :
    Sc.liftI In.nextIsBreakz t = .ok (isBreakz c, t) := by
  simp [Sc.liftI, In.nextIsBreakz, In.nextIs, hk, In.peek, hb, Bind.bind, Pure.pure]

theorem peek_buf_eval (t : Sc) (hk : t.inp.kind = .buf) (c : Char) (r : Str) (hb : t.inp.buf = c :: r) :
    Sc.peek t = .ok (c, t) := by
  simp [Sc.peek, Sc.liftI, In.peek, hk, hb]

theorem skipBlank_buf_eval (t : Sc) (hk : t.inp.kind = .buf) (c : Char) (r : Str) (hb : t.inp.buf = c :: r) :
    skipBlank t = .ok ((), advS t 1 { t.inp with buf := r }) := by
  simp [skipBlank, Sc.liftI, In.skip, hk, hb, advance, modS, Bind.bind, advS]

/-- the buffered loop on a buffered input reads what the buffer holds of the line -/
theorem bufLoop_buf : ∀ (fuel : Nat) (str : Str) (t : Sc), t.inp.kind = .buf →
    (∃ p, contentLineBuffered fuel str t = .panic p) ∨
    contentLineBuffered fuel str t = .ok (str ++ t.inp.buf.takeWhile nb,
      advS t (t.inp.buf.takeWhile nb).length { t.inp with buf := t.inp.buf.dropWhile nb }) := by
  intro fuel
  induction fuel with
  | zero => intro str t _; left; exact ⟨_, rfl⟩
  | succ f ih =>
    intro str t hk
    rw [clb_step, bufIsEmpty_buf _ hk]
    cases hb : t.inp.buf with
    | nil =>
      right
      simp only [List.isEmpty_nil, ↓reduceIte, List.takeWhile_nil, List.append_nil, List.length_nil, List.dropWhile_nil]
      have : ({ t.inp with buf := [] } : In) = t.inp := by cases hs : t.inp; simp_all
      rw [this, advS_zero]
    | cons c r =>
      simp only [List.isEmpty_cons, Bool.false_eq_true, ↓reduceIte, nextIsBreakz_buf_eval t hk c r hb]
      by_cases hc : isBreakz c = true
      · right
        have hn : nb c = false := by simp [nb, hc]
        simp only [hc, ↓reduceIte, List.takeWhile_cons, List.dropWhile_cons, hn, List.append_nil, List.length_nil,
          Bool.false_eq_true]
        have : ({ t.inp with buf := c :: r } : In) = t.inp := by cases hs : t.inp; simp_all
        rw [this, advS_zero]
      · have hc' : isBreakz c = false := by simpa using hc
        have hn : nb c = true := by simp [nb, hc']
        simp only [hc', Bool.false_eq_true, ↓reduceIte, peek_buf_eval t hk c r hb, skipBlank_buf_eval t hk c r hb]
        have hk1 : (advS t 1 { t.inp with buf := r }).inp.kind = .buf := hk
        rcases ih (str ++ [c]) (advS t 1 { t.inp with buf := r }) hk1 with ⟨p, hp⟩ | hok
        · left; exact ⟨p, hp⟩
        · right
          rw [hok]
          simp only [List.takeWhile_cons, List.dropWhile_cons, hn, ↓reduceIte, advS_advS, List.length_cons]
          simp [advS, Nat.add_comm]

/-- the raw loop on a buffered input whose buffer is empty reads the rest of the line from the iterator
    and leaves the break (if any) in the buffer -/
theorem rawLoop_buf : ∀ (fuel : Nat) (line : Str) (t : Sc), t.inp.kind = .buf → t.inp.buf = [] →
    (∃ p, contentLineRaw fuel line t = .panic p) ∨
    ∃ j', contentLineRaw fuel line t = .ok (line ++ t.inp.iter.takeWhile nb, { t with inp := j' }) ∧
      j'.kind = .buf ∧ j'.buf ++ j'.iter = t.inp.iter.dropWhile nb := by
  intro fuel
  induction fuel with
  | zero => intro line t _ _; left; exact ⟨_, rfl⟩
  | succ f ih =>
    intro line t hk hb
    rw [clr_step]
    simp only [Sc.liftI, In.rawReadNonBreakzCh]
    cases hi : t.inp.iter with
    | nil =>
      right
      refine ⟨t.inp, ?_, hk, by simp [hb, hi]⟩
      simp
    | cons c r =>
      by_cases hc : isBreakz c = true
      · have hn : nb c = false := by simp [nb, hc]
        simp only [hc, ↓reduceIte, hk, hb, List.length_nil]
        by_cases hcap : 0 ≥ t.inp.cap
        · left; simp [hcap]
        · right
          simp only [hcap, ↓reduceIte, List.nil_append]
          exact ⟨{ t.inp with buf := [c], iter := r }, by simp [List.takeWhile_cons, hn, hk], hk, by simp [List.dropWhile_cons, hn]⟩
      · have hc' : isBreakz c = false := by simpa using hc
        have hn : nb c = true := by simp [nb, hc']
        simp only [hc', Bool.false_eq_true, ↓reduceIte]
        rcases ih (line ++ [c]) { t with inp := { t.inp with iter := r } } hk hb with ⟨p, hp⟩ | ⟨j', hok, hkj, htx⟩
        · left; exact ⟨p, hp⟩
        · right
          refine ⟨j', ?_, hkj, ?_⟩
          · rw [hok]; simp [List.takeWhile_cons, hn]
          · rw [htx]; simp [List.dropWhile_cons, hn]

theorem takeWhile_append_stop (p : Char → Bool) : ∀ (l m : Str) (c : Char) (r : Str), l.dropWhile p = c :: r →
    (l ++ m).takeWhile p = l.takeWhile p ∧ (l ++ m).dropWhile p = l.dropWhile p ++ m := by
  intro l
  induction l with
  | nil => intro m c r h; simp at h
  | cons a t ih =>
    intro m c r h
    by_cases ha : p a = true
    · simp only [List.dropWhile_cons, ha, ↓reduceIte] at h
      obtain ⟨h1, h2⟩ := ih m c r h
      simp [List.takeWhile_cons, List.dropWhile_cons, ha, h1, h2]
    · have ha' : p a = false := by simpa using ha
      simp [List.takeWhile_cons, List.dropWhile_cons, ha']

theorem takeWhile_append_all (p : Char → Bool) : ∀ (l m : Str), l.dropWhile p = [] →
    (l ++ m).takeWhile p = l ++ m.takeWhile p ∧ (l ++ m).dropWhile p = m.dropWhile p ∧ l.takeWhile p = l := by
  intro l
  induction l with
  | nil => intro m _; simp
  | cons a t ih =>
    intro m h
    by_cases ha : p a = true
    · simp only [List.dropWhile_cons, ha, ↓reduceIte] at h
      obtain ⟨h1, h2, h3⟩ := ih m h
      simp [List.takeWhile_cons, List.dropWhile_cons, ha, h1, h2, h3]
    · have ha' : p a = false := by simpa using ha
      simp [List.dropWhile_cons, ha'] at h

/-- **buffered side**: the content line is read up to the next break or the end: first from the buffer,
    then — if the buffer ran empty — from the iterator behind it -/
theorem line_buf (str : Str) (t : Sc) (hk : t.inp.kind = .buf) :
    (∃ p, scanBlockScalarContentLine str t = .panic p) ∨
    ∃ j', scanBlockScalarContentLine str t = .ok (str ++ (t.inp.buf ++ t.inp.iter).takeWhile nb,
        advS t ((t.inp.buf ++ t.inp.iter).takeWhile nb).length j') ∧
      j'.kind = .buf ∧ j'.buf ++ j'.iter = (t.inp.buf ++ t.inp.iter).dropWhile nb := by
  rw [sbl_eq]
  rcases bufLoop_buf (t.inp.remaining + 2) str t hk with ⟨p, hp⟩ | hok
  · left; rw [hp]; exact ⟨p, rfl⟩
  · rw [hok]
    simp only
    cases hd : t.inp.buf.dropWhile nb with
    | cons c r =>
      right
      obtain ⟨h1, h2⟩ := takeWhile_append_stop nb t.inp.buf t.inp.iter c r hd
      have hbe : (advS t (t.inp.buf.takeWhile nb).length { t.inp with buf := c :: r }).inp.bufIsEmpty = false := by
        rw [bufIsEmpty_buf _ (show (advS t (t.inp.buf.takeWhile nb).length { t.inp with buf := c :: r }).inp.kind = .buf from hk)]; rfl
      simp only [hbe, Bool.false_eq_true, ↓reduceIte]
      refine ⟨{ t.inp with buf := c :: r }, by rw [h1], hk, by rw [h2, hd]⟩
    | nil =>
      obtain ⟨h1, h2, h3⟩ := takeWhile_append_all nb t.inp.buf t.inp.iter hd
      have hbe : (advS t (t.inp.buf.takeWhile nb).length { t.inp with buf := [] }).inp.bufIsEmpty = true := by
        rw [bufIsEmpty_buf _ (show (advS t (t.inp.buf.takeWhile nb).length { t.inp with buf := [] }).inp.kind = .buf from hk)]; rfl
      simp only [hbe, ↓reduceIte]
      have hk1 : (advS t (t.inp.buf.takeWhile nb).length { t.inp with buf := [] }).inp.kind = .buf := hk
      rcases rawLoop_buf ((advS t (t.inp.buf.takeWhile nb).length { t.inp with buf := [] }).inp.remaining + 2) []
          (advS t (t.inp.buf.takeWhile nb).length { t.inp with buf := [] }) hk1 rfl with ⟨p, hp⟩ | ⟨j', hok2, hkj, htx⟩
      · left; rw [hp]; exact ⟨p, rfl⟩
      · right
        rw [hok2]
        refine ⟨j', ?_, hkj, ?_⟩
        · simp only [List.nil_append]
          have e : (advS t (t.inp.buf.takeWhile nb).length { t.inp with buf := [] }).inp.iter = t.inp.iter := rfl
          rw [e, h1, h3]
          simp [advS, List.append_assoc, Nat.add_assoc]
        · rw [htx, h2]; rfl

/-- **`scan_block_scalar_content_line` agrees across back-ends**: the buffered-then-raw reading of the
    buffered input and whichever single path the string input takes read the same characters, advance the
    position by the same amount and leave the two inputs seeing the same text -/
theorem line_rel (str : Str) : RelS (scanBlockScalarContentLine str) (scanBlockScalarContentLine str) := by
  constructor
  intro s t hst
  rcases line_str str s hst.inp.ki with ⟨p, hp⟩ | hs
  · rw [hp]; simp [OutS]
  · rcases line_buf str t hst.inp.kj with ⟨p, hp⟩ | ⟨j', ht, hkj, htx⟩
    · rw [hp]; exact OutS.panicR _ _
    · rw [hs, ht]
      obtain ⟨h1, h2⟩ := same_line s.inp.iter (t.inp.buf ++ t.inp.iter) hst.inp.same
      refine ⟨by rw [h1], ⟨⟨hst.inp.ki, hkj, ?_⟩, ?_⟩⟩
      · intro n
        show (s.inp.iter.dropWhile nb).getD n '\x00' = (j'.buf ++ j'.iter).getD n '\x00'
        rw [htx]; exact h2 n
      · rw [h1]
        conv => lhs; rw [hst.rest]
        rfl

end SaphyrModel.C10
