import SaphyrModel.Proofs.InputAgree
import SaphyrModel.Sc.Scan3
/-! Back-end agreement lifted to the scanner (C10): a relational Hoare logic over pairs of scanner
states that differ only in their input (a string input on one side, a buffered input on the other,
both seeing the same characters). `RelS m₁ m₂`: from related states `m₁` and `m₂` return equal
values and related states, or the same error; a panic on either side claims nothing. -/
namespace SaphyrModel.C10
open SaphyrModel SaphyrModel.Sc

/-- the two scanner states differ only in their inputs, which see the same characters -/
structure Sim (s t : Sc) : Prop where
  inp : SimIn s.inp t.inp
  rest : t = { s with inp := t.inp }

def OutS {α : Type} : Sc.Res (α × Sc) → Sc.Res (α × Sc) → Prop
  | .ok (a, s'), .ok (b, t') => a = b ∧ Sim s' t'
  | .err e1, .err e2 => e1 = e2
  | .panic _, _ => True
  | _, .panic _ => True
  | _, _ => False

structure RelS {α : Type} (m1 m2 : S α) : Prop where
  out : ∀ s t, Sim s t → OutS (m1 s) (m2 t)

theorem OutS.panicR {α : Type} (r : Sc.Res (α × Sc)) (p : Site) : OutS r (.panic p) := by
  cases r with
  | ok q => obtain ⟨a, s⟩ := q; simp [OutS]
  | err e => simp [OutS]
  | panic q => simp [OutS]

theorem RelS.pure {α : Type} (a : α) : RelS (Pure.pure a : S α) (Pure.pure a) := ⟨fun _ _ h => ⟨rfl, h⟩⟩

theorem RelS.bind {α β : Type} {m1 m2 : S α} {f1 f2 : α → S β} (h1 : RelS m1 m2) (h2 : ∀ a, RelS (f1 a) (f2 a)) :
    RelS (m1 >>= f1) (m2 >>= f2) := by
  constructor
  intro s t hst
  have := h1.out s t hst
  simp only [Bind.bind]
  cases hs : m1 s with
  | ok r =>
    obtain ⟨a, s'⟩ := r
    cases ht : m2 t with
    | ok q =>
      obtain ⟨b, t'⟩ := q
      simp only [hs, ht, OutS] at this
      obtain ⟨rfl, hsim⟩ := this
      exact (h2 a).out s' t' hsim
    | err e => simp only [hs, ht, OutS] at this
    | panic p => exact OutS.panicR _ _
  | err e =>
    cases ht : m2 t with
    | ok q => obtain ⟨b, t'⟩ := q; simp only [hs, ht, OutS] at this
    | err e2 => simp only [hs, ht, OutS] at this ⊢; exact this
    | panic p => simp [OutS]
  | panic p => simp [OutS]

theorem RelS.getS_bind {β : Type} {f1 f2 : Sc → S β} (h : ∀ s j, RelS (f1 s) (f2 { s with inp := j })) :
    RelS (getS >>= f1) (getS >>= f2) := by
  constructor
  intro s t hst
  have := (h s t.inp).out s t hst
  rw [← hst.rest] at this
  simpa [Bind.bind, getS] using this

theorem RelS.getMark : RelS getMark getMark := by
  constructor
  intro s t h
  refine ⟨?_, h⟩
  rw [h.rest]

theorem RelS.err {α : Type} (m : Marker) (msg : String) : RelS (err m msg : S α) (err m msg) := ⟨fun _ _ _ => rfl⟩
theorem RelS.panicL {α : Type} (p : Site) (m : S α) : RelS (panicAt p : S α) m := ⟨fun _ _ _ => by simp [panicAt, OutS]⟩
theorem RelS.panicR {α : Type} (p : Site) (m : S α) : RelS m (panicAt p : S α) := ⟨fun _ _ _ => OutS.panicR _ _⟩

theorem RelS.ite {α : Type} {c : Prop} [Decidable c] {a1 a2 b1 b2 : S α} (ha : RelS a1 a2) (hb : RelS b1 b2) :
    RelS (if c then a1 else b1) (if c then a2 else b2) := by
  split <;> assumption

/-- a pure state edit that does not touch the input -/
theorem RelS.modS (f : Sc → Sc) (hf : ∀ s j, f { s with inp := j } = { f s with inp := j }) : RelS (modS f) (modS f) := by
  constructor
  intro s t h
  refine ⟨rfl, ?_⟩
  show Sim (f s) (f t)
  have e : f t = { f s with inp := t.inp } := by rw [h.rest, hf]
  refine ⟨?_, ?_⟩
  · rw [e]
    have : (f s).inp = s.inp := by
      have := hf s s.inp
      have e2 : ({ s with inp := s.inp } : Sc) = s := rfl
      rw [e2] at this
      have := congrArg Sc.inp this
      simpa using this
    rw [this]; exact h.inp
  · rw [e]

theorem RelS.liftI {α : Type} {m : M In α} (h : Agrees m) : RelS (liftI m) (liftI m) := by
  constructor
  intro s t hst
  have := h s.inp t.inp hst.inp
  simp only [Sc.liftI]
  cases hs : m s.inp with
  | ok r =>
    obtain ⟨a, i'⟩ := r
    cases ht : m t.inp with
    | ok q =>
      obtain ⟨b, j'⟩ := q
      simp only [hs, ht, AgreeR] at this
      refine ⟨this.1, ⟨this.2.1, ?_⟩⟩
      rw [hst.rest]
    | err e => simp only [hs, ht, AgreeR] at this
    | panic p => simp [OutS]
  | err e =>
    cases ht : m t.inp with
    | ok q => obtain ⟨b, j'⟩ := q; simp only [hs, ht, AgreeR] at this
    | err e2 => simp only [hs, ht, AgreeR] at this ⊢; exact this
    | panic p => simp [OutS]
  | panic p => simp [OutS]

end SaphyrModel.C10
