import SaphyrModel.Proofs.Rel.GenScan2
set_option linter.unusedSimpArgs false
set_option linter.unusedVariables false
set_option linter.unusedSectionVars false
namespace SaphyrModel.C10
open SaphyrModel SaphyrModel.Sc

variable [inst : Bespoke]
include inst
macro_rules | `(tactic| rel_close) => `(tactic| first
    | exact line_rel _ | exact Bespoke.indent _ _ _ _ | exact plainChunks_rel _ _ _)

/-- `hexLoop` counts digits down (its first number is not fuel) -/
theorem RelS.hexLoop (startMark : Marker) (n : Nat) : ∀ (k v : Nat), RelS (hexLoop startMark n k v) (hexLoop startMark n k v) := by
  intro k
  induction k with
  | zero => intro v; unfold Sc.hexLoop; rel
  | succ k ih => intro v; unfold Sc.hexLoop; rel
macro_rules | `(tactic| rel_close) => `(tactic| exact RelS.hexLoop _ _ _ _)

set_option maxHeartbeats 4000000 in
theorem RelS.resolveEscape (startMark : Marker) : RelS (resolveEscape startMark) (resolveEscape startMark) := by
  unfold Sc.resolveEscape; rel
macro_rules | `(tactic| rel_close) => `(tactic| exact RelS.resolveEscape _)
set_option maxHeartbeats 4000000 in
theorem RelS.consumeNonWs (single : Bool) (startMark : Marker) : ∀ (f1 f2 : Nat) (x0 : Str) (x1 : Bool), RelS (consumeNonWs single startMark f1 x0 x1) (consumeNonWs single startMark f2 x0 x1) := by
  intro f1
  induction f1 with
  | zero => intro f2 x0 x1; unfold Sc.consumeNonWs; exact RelS.panicL _ _
  | succ n1 ih =>
    intro f2 x0 x1
    cases f2 with
    | zero => unfold Sc.consumeNonWs; exact RelS.panicR _ _
    | succ n2 => unfold Sc.consumeNonWs; rel
macro_rules | `(tactic| rel_close) => `(tactic| exact RelS.consumeNonWs _ _ _ _ _ _)
set_option maxHeartbeats 4000000 in
theorem RelS.consumeBlanks  : ∀ (f1 f2 : Nat) (x0 : WsAcc) (x1 : Bool), RelS (consumeBlanks  f1 x0 x1) (consumeBlanks  f2 x0 x1) := by
  intro f1
  induction f1 with
  | zero => intro f2 x0 x1; unfold Sc.consumeBlanks; exact RelS.panicL _ _
  | succ n1 ih =>
    intro f2 x0 x1
    cases f2 with
    | zero => unfold Sc.consumeBlanks; exact RelS.panicR _ _
    | succ n2 => unfold Sc.consumeBlanks; rel
macro_rules | `(tactic| rel_close) => `(tactic| exact RelS.consumeBlanks  _ _ _ _)
set_option maxHeartbeats 4000000 in
theorem RelS.flowScalarLoop (single : Bool) (startMark : Marker) : ∀ (f1 f2 : Nat) (x0 : Str) (x1 : WsAcc), RelS (flowScalarLoop single startMark f1 x0 x1) (flowScalarLoop single startMark f2 x0 x1) := by
  intro f1
  induction f1 with
  | zero => intro f2 x0 x1; unfold Sc.flowScalarLoop; exact RelS.panicL _ _
  | succ n1 ih =>
    intro f2 x0 x1
    cases f2 with
    | zero => unfold Sc.flowScalarLoop; exact RelS.panicR _ _
    | succ n2 => unfold Sc.flowScalarLoop; rel
macro_rules | `(tactic| rel_close) => `(tactic| exact RelS.flowScalarLoop _ _ _ _ _ _)
set_option maxHeartbeats 4000000 in
theorem RelS.scanFlowScalar (single : Bool) : RelS (scanFlowScalar single) (scanFlowScalar single) := by
  unfold Sc.scanFlowScalar; rel
macro_rules | `(tactic| rel_close) => `(tactic| exact RelS.scanFlowScalar _)
set_option maxHeartbeats 4000000 in
theorem RelS.fetchFlowScalar (single : Bool) : RelS (fetchFlowScalar single) (fetchFlowScalar single) := by
  unfold Sc.fetchFlowScalar; rel
macro_rules | `(tactic| rel_close) => `(tactic| exact RelS.fetchFlowScalar _)
set_option maxHeartbeats 4000000 in
theorem RelS.plainBlanks (indent : Int) (startMark : Marker) : ∀ (f1 f2 : Nat) (x0 : PlAcc), RelS (plainBlanks indent startMark f1 x0) (plainBlanks indent startMark f2 x0) := by
  intro f1
  induction f1 with
  | zero => intro f2 x0; unfold Sc.plainBlanks; exact RelS.panicL _ _
  | succ n1 ih =>
    intro f2 x0
    cases f2 with
    | zero => unfold Sc.plainBlanks; exact RelS.panicR _ _
    | succ n2 => unfold Sc.plainBlanks; rel
macro_rules | `(tactic| rel_close) => `(tactic| exact RelS.plainBlanks _ _ _ _ _)
set_option maxHeartbeats 4000000 in
theorem RelS.plainLoop (indent : Int) (startMark : Marker) : ∀ (f1 f2 : Nat) (x0 : PlAcc), RelS (plainLoop indent startMark f1 x0) (plainLoop indent startMark f2 x0) := by
  intro f1
  induction f1 with
  | zero => intro f2 x0; unfold Sc.plainLoop; exact RelS.panicL _ _
  | succ n1 ih =>
    intro f2 x0
    cases f2 with
    | zero => unfold Sc.plainLoop; exact RelS.panicR _ _
    | succ n2 => unfold Sc.plainLoop; rel
macro_rules | `(tactic| rel_close) => `(tactic| exact RelS.plainLoop _ _ _ _ _)
set_option maxHeartbeats 4000000 in
theorem RelS.scanPlainScalarBody  : RelS (scanPlainScalarBody ) (scanPlainScalarBody ) := by
  unfold Sc.scanPlainScalarBody; rel
macro_rules | `(tactic| rel_close) => `(tactic| exact RelS.scanPlainScalarBody )
set_option maxHeartbeats 4000000 in
theorem RelS.scanPlainScalar  : RelS (scanPlainScalar ) (scanPlainScalar ) := by
  unfold Sc.scanPlainScalar; rel
macro_rules | `(tactic| rel_close) => `(tactic| exact RelS.scanPlainScalar )
set_option maxHeartbeats 4000000 in
theorem RelS.fetchPlainScalar  : RelS (fetchPlainScalar ) (fetchPlainScalar ) := by
  unfold Sc.fetchPlainScalar; rel
macro_rules | `(tactic| rel_close) => `(tactic| exact RelS.fetchPlainScalar )
theorem markExplicitKey_inp  (s : Sc) (j : In) :
    markExplicitKey { s with inp := j } = { markExplicitKey s with inp := j } := by
  unfold markExplicitKey; cases s; first | rfl | (dsimp only; (repeat' split) <;> rfl)
macro_rules | `(tactic| rel_close) => `(tactic| exact RelS.modS _ (markExplicitKey_inp ))
theorem RelS.keyPrologue  (s : Sc) (j : In) : RelS (keyPrologue s) (keyPrologue { s with inp := j }) := by
  unfold Sc.keyPrologue; dsimp only; rel
macro_rules | `(tactic| rel_close) => `(tactic| exact RelS.keyPrologue  _ _)
set_option maxHeartbeats 4000000 in
theorem RelS.fetchKeyTail (startMark : Marker) : RelS (fetchKeyTail startMark) (fetchKeyTail startMark) := by
  unfold Sc.fetchKeyTail; rel
macro_rules | `(tactic| rel_close) => `(tactic| exact RelS.fetchKeyTail _)
set_option maxHeartbeats 4000000 in
theorem RelS.fetchKey  : RelS (fetchKey ) (fetchKey ) := by
  unfold Sc.fetchKey; rel
macro_rules | `(tactic| rel_close) => `(tactic| exact RelS.fetchKey )
set_option maxHeartbeats 4000000 in
theorem RelS.valueAfterSimpleKey (sk : SimpleKey) (startMark : Marker) (isImplicit : Bool) : RelS (valueAfterSimpleKey sk startMark isImplicit) (valueAfterSimpleKey sk startMark isImplicit) := by
  unfold Sc.valueAfterSimpleKey; rel
macro_rules | `(tactic| rel_close) => `(tactic| exact RelS.valueAfterSimpleKey _ _ _)
set_option maxHeartbeats 4000000 in
theorem RelS.valueAfterComplexKey (startMark : Marker) (isImplicit : Bool) : RelS (valueAfterComplexKey startMark isImplicit) (valueAfterComplexKey startMark isImplicit) := by
  unfold Sc.valueAfterComplexKey; rel
macro_rules | `(tactic| rel_close) => `(tactic| exact RelS.valueAfterComplexKey _ _)
set_option maxHeartbeats 4000000 in
theorem RelS.valueTabCheck  : RelS (valueTabCheck ) (valueTabCheck ) := by
  unfold Sc.valueTabCheck; rel
macro_rules | `(tactic| rel_close) => `(tactic| exact RelS.valueTabCheck )
set_option maxHeartbeats 4000000 in
theorem RelS.fetchValue  : RelS (fetchValue ) (fetchValue ) := by
  unfold Sc.fetchValue; rel
macro_rules | `(tactic| rel_close) => `(tactic| exact RelS.fetchValue )
set_option maxHeartbeats 4000000 in
theorem RelS.fetchFlowValue  : RelS (fetchFlowValue ) (fetchFlowValue ) := by
  unfold Sc.fetchFlowValue; rel
macro_rules | `(tactic| rel_close) => `(tactic| exact RelS.fetchFlowValue )
set_option maxHeartbeats 4000000 in
theorem RelS.fetchDocumentEndMarker  : RelS (fetchDocumentEndMarker ) (fetchDocumentEndMarker ) := by
  unfold Sc.fetchDocumentEndMarker; rel
macro_rules | `(tactic| rel_close) => `(tactic| exact RelS.fetchDocumentEndMarker )
set_option maxHeartbeats 4000000 in
theorem RelS.fetchSpecial  : RelS (fetchSpecial ) (fetchSpecial ) := by
  unfold Sc.fetchSpecial; rel
macro_rules | `(tactic| rel_close) => `(tactic| exact RelS.fetchSpecial )
set_option maxHeartbeats 4000000 in
theorem RelS.fetchDispatch  : RelS (fetchDispatch ) (fetchDispatch ) := by
  unfold Sc.fetchDispatch; rel
macro_rules | `(tactic| rel_close) => `(tactic| exact RelS.fetchDispatch )
set_option maxHeartbeats 4000000 in
theorem RelS.fetchAfterStart  : RelS (fetchAfterStart ) (fetchAfterStart ) := by
  unfold Sc.fetchAfterStart; rel
macro_rules | `(tactic| rel_close) => `(tactic| exact RelS.fetchAfterStart )
set_option maxHeartbeats 4000000 in
theorem RelS.fetchNextToken  : RelS (fetchNextToken ) (fetchNextToken ) := by
  unfold Sc.fetchNextToken; rel
macro_rules | `(tactic| rel_close) => `(tactic| exact RelS.fetchNextToken )
set_option maxHeartbeats 4000000 in
theorem RelS.needMoreTokens  : RelS (needMoreTokens ) (needMoreTokens ) := by
  unfold Sc.needMoreTokens; rel
macro_rules | `(tactic| rel_close) => `(tactic| exact RelS.needMoreTokens )
set_option maxHeartbeats 4000000 in
theorem RelS.fetchMoreTokens  : ∀ (f1 f2 : Nat), RelS (fetchMoreTokens  f1 ) (fetchMoreTokens  f2 ) := by
  intro f1
  induction f1 with
  | zero => intro f2 ; unfold Sc.fetchMoreTokens; exact RelS.panicL _ _
  | succ n1 ih =>
    intro f2 
    cases f2 with
    | zero => unfold Sc.fetchMoreTokens; exact RelS.panicR _ _
    | succ n2 => unfold Sc.fetchMoreTokens; rel
macro_rules | `(tactic| rel_close) => `(tactic| exact RelS.fetchMoreTokens  _ _ )
set_option maxHeartbeats 4000000 in
theorem RelS.popToken  : RelS (popToken ) (popToken ) := by
  unfold Sc.popToken; rel
macro_rules | `(tactic| rel_close) => `(tactic| exact RelS.popToken )
set_option maxHeartbeats 4000000 in
theorem RelS.nextToken  : RelS (nextToken ) (nextToken ) := by
  unfold Sc.nextToken; rel
macro_rules | `(tactic| rel_close) => `(tactic| exact RelS.nextToken )

end SaphyrModel.C10
