import SaphyrModel.Proofs.Rel.Prims
set_option linter.unusedSimpArgs false
set_option linter.unusedVariables false
namespace SaphyrModel.C10
open SaphyrModel SaphyrModel.Sc

theorem RelS.skipWsToEol (t : SkipTabs) : RelS (skipWsToEol t) (skipWsToEol t) := by
  unfold Sc.skipWsToEol; rel
macro_rules | `(tactic| rel_close) => `(tactic| exact RelS.skipWsToEol _)
theorem dropNonBlockTop_inp (col : Nat) (s : Sc) (j : In) :
    dropNonBlockTop col { s with inp := j } = { dropNonBlockTop col s with inp := j } := by
  unfold dropNonBlockTop; cases s; dsimp only; (repeat' split) <;> rfl
macro_rules | `(tactic| rel_close) => `(tactic| exact RelS.modS _ (dropNonBlockTop_inp _))
theorem RelS.rollIndentPush (col : Nat) (number : Option Nat) (tok : TokenType) (mark : Marker) : RelS (rollIndentPush col number tok mark) (rollIndentPush col number tok mark) := by
  unfold Sc.rollIndentPush; rel
macro_rules | `(tactic| rel_close) => `(tactic| exact RelS.rollIndentPush _ _ _ _)
theorem RelS.rollIndent (col : Nat) (number : Option Nat) (tok : TokenType) (mark : Marker) : RelS (rollIndent col number tok mark) (rollIndent col number tok mark) := by
  unfold Sc.rollIndent; rel
macro_rules | `(tactic| rel_close) => `(tactic| exact RelS.rollIndent _ _ _ _)
theorem RelS.unrollIndentGo (col : Int) : ∀ (f1 f2 : Nat), RelS (unrollIndentGo col f1 ) (unrollIndentGo col f2 ) := by
  intro f1
  induction f1 with
  | zero => intro f2 ; unfold Sc.unrollIndentGo; exact RelS.panicL _ _
  | succ n1 ih =>
    intro f2 
    cases f2 with
    | zero => unfold Sc.unrollIndentGo; exact RelS.panicR _ _
    | succ n2 => unfold Sc.unrollIndentGo; rel
macro_rules | `(tactic| rel_close) => `(tactic| exact RelS.unrollIndentGo _ _ _ )
theorem RelS.unrollIndent (col : Int) : RelS (unrollIndent col) (unrollIndent col) := by
  unfold Sc.unrollIndent; rel
macro_rules | `(tactic| rel_close) => `(tactic| exact RelS.unrollIndent _)
theorem RelS.rollOneColIndent  : RelS (rollOneColIndent ) (rollOneColIndent ) := by
  unfold Sc.rollOneColIndent; rel
macro_rules | `(tactic| rel_close) => `(tactic| exact RelS.rollOneColIndent )
theorem RelS.unrollNonBlockIndents  : RelS (unrollNonBlockIndents ) (unrollNonBlockIndents ) := by
  unfold Sc.unrollNonBlockIndents; rel
macro_rules | `(tactic| rel_close) => `(tactic| exact RelS.unrollNonBlockIndents )
theorem RelS.requiredKey  (s : Sc) (j : In) : RelS (requiredKey s) (requiredKey { s with inp := j }) := by
  unfold Sc.requiredKey; dsimp only; rel
macro_rules | `(tactic| rel_close) => `(tactic| exact RelS.requiredKey  _ _)
theorem RelS.saveSimpleKey  : RelS (saveSimpleKey ) (saveSimpleKey ) := by
  unfold Sc.saveSimpleKey; rel
macro_rules | `(tactic| rel_close) => `(tactic| exact RelS.saveSimpleKey )
theorem RelS.removeSimpleKey  : RelS (removeSimpleKey ) (removeSimpleKey ) := by
  unfold Sc.removeSimpleKey; rel
macro_rules | `(tactic| rel_close) => `(tactic| exact RelS.removeSimpleKey )
theorem RelS.staleSimpleKeys  : RelS (staleSimpleKeys ) (staleSimpleKeys ) := by
  unfold Sc.staleSimpleKeys; rel
macro_rules | `(tactic| rel_close) => `(tactic| exact RelS.staleSimpleKeys )
theorem RelS.increaseFlowLevel  : RelS (increaseFlowLevel ) (increaseFlowLevel ) := by
  unfold Sc.increaseFlowLevel; rel
macro_rules | `(tactic| rel_close) => `(tactic| exact RelS.increaseFlowLevel )
theorem RelS.decreaseFlowLevel  : RelS (decreaseFlowLevel ) (decreaseFlowLevel ) := by
  unfold Sc.decreaseFlowLevel; rel
macro_rules | `(tactic| rel_close) => `(tactic| exact RelS.decreaseFlowLevel )
theorem RelS.endImplicitMapping (mark : Marker) : RelS (endImplicitMapping mark) (endImplicitMapping mark) := by
  unfold Sc.endImplicitMapping; rel
macro_rules | `(tactic| rel_close) => `(tactic| exact RelS.endImplicitMapping _)

end SaphyrModel.C10
