import SaphyrModel.Proofs.Rel.GenState
set_option linter.unusedSimpArgs false
set_option linter.unusedVariables false
namespace SaphyrModel.C10
open SaphyrModel SaphyrModel.Sc

theorem RelS.skipToNextTokenGo  : ∀ (f1 f2 : Nat), RelS (skipToNextTokenGo  f1 ) (skipToNextTokenGo  f2 ) := by
  intro f1
  induction f1 with
  | zero => intro f2 ; unfold Sc.skipToNextTokenGo; exact RelS.panicL _ _
  | succ n1 ih =>
    intro f2 
    cases f2 with
    | zero => unfold Sc.skipToNextTokenGo; exact RelS.panicR _ _
    | succ n2 => unfold Sc.skipToNextTokenGo; rel
macro_rules | `(tactic| rel_close) => `(tactic| exact RelS.skipToNextTokenGo  _ _ )
set_option maxHeartbeats 4000000 in
theorem RelS.skipToNextToken  : RelS (skipToNextToken ) (skipToNextToken ) := by
  unfold Sc.skipToNextToken; rel
macro_rules | `(tactic| rel_close) => `(tactic| exact RelS.skipToNextToken )
theorem RelS.skipYamlWhitespaceGo  : ∀ (f1 f2 : Nat) (x0 : Bool), RelS (skipYamlWhitespaceGo  f1 x0) (skipYamlWhitespaceGo  f2 x0) := by
  intro f1
  induction f1 with
  | zero => intro f2 x0; unfold Sc.skipYamlWhitespaceGo; exact RelS.panicL _ _
  | succ n1 ih =>
    intro f2 x0
    cases f2 with
    | zero => unfold Sc.skipYamlWhitespaceGo; exact RelS.panicR _ _
    | succ n2 => unfold Sc.skipYamlWhitespaceGo; rel
macro_rules | `(tactic| rel_close) => `(tactic| exact RelS.skipYamlWhitespaceGo  _ _ _)
set_option maxHeartbeats 4000000 in
theorem RelS.skipYamlWhitespace  : RelS (skipYamlWhitespace ) (skipYamlWhitespace ) := by
  unfold Sc.skipYamlWhitespace; rel
macro_rules | `(tactic| rel_close) => `(tactic| exact RelS.skipYamlWhitespace )
set_option maxHeartbeats 4000000 in
theorem RelS.fetchStreamStart  : RelS (fetchStreamStart ) (fetchStreamStart ) := by
  unfold Sc.fetchStreamStart; rel
macro_rules | `(tactic| rel_close) => `(tactic| exact RelS.fetchStreamStart )
theorem clearPossibleKeys_inp  (s : Sc) (j : In) :
    clearPossibleKeys { s with inp := j } = { clearPossibleKeys s with inp := j } := by
  unfold clearPossibleKeys; cases s; first | rfl | (dsimp only; (repeat' split) <;> rfl)
macro_rules | `(tactic| rel_close) => `(tactic| exact RelS.modS _ (clearPossibleKeys_inp ))
set_option maxHeartbeats 4000000 in
theorem RelS.fetchStreamEnd  : RelS (fetchStreamEnd ) (fetchStreamEnd ) := by
  unfold Sc.fetchStreamEnd; rel
macro_rules | `(tactic| rel_close) => `(tactic| exact RelS.fetchStreamEnd )
set_option maxHeartbeats 4000000 in
theorem RelS.scanDirectiveName  : RelS (scanDirectiveName ) (scanDirectiveName ) := by
  unfold Sc.scanDirectiveName; rel
macro_rules | `(tactic| rel_close) => `(tactic| exact RelS.scanDirectiveName )
theorem RelS.scanVersionNumberGo (mark : Marker) : ∀ (f1 f2 : Nat) (x0 : Nat) (x1 : Nat), RelS (scanVersionNumberGo mark f1 x0 x1) (scanVersionNumberGo mark f2 x0 x1) := by
  intro f1
  induction f1 with
  | zero => intro f2 x0 x1; unfold Sc.scanVersionNumberGo; exact RelS.panicL _ _
  | succ n1 ih =>
    intro f2 x0 x1
    cases f2 with
    | zero => unfold Sc.scanVersionNumberGo; exact RelS.panicR _ _
    | succ n2 => unfold Sc.scanVersionNumberGo; rel
macro_rules | `(tactic| rel_close) => `(tactic| exact RelS.scanVersionNumberGo _ _ _ _ _)
set_option maxHeartbeats 4000000 in
theorem RelS.scanVersionDirectiveNumber (mark : Marker) : RelS (scanVersionDirectiveNumber mark) (scanVersionDirectiveNumber mark) := by
  unfold Sc.scanVersionDirectiveNumber; rel
macro_rules | `(tactic| rel_close) => `(tactic| exact RelS.scanVersionDirectiveNumber _)
set_option maxHeartbeats 4000000 in
theorem RelS.scanVersionDirectiveValue (mark : Marker) : RelS (scanVersionDirectiveValue mark) (scanVersionDirectiveValue mark) := by
  unfold Sc.scanVersionDirectiveValue; rel
macro_rules | `(tactic| rel_close) => `(tactic| exact RelS.scanVersionDirectiveValue _)
set_option maxHeartbeats 4000000 in
theorem RelS.scanTagHandle (directive : Bool) (mark : Marker) : RelS (scanTagHandle directive mark) (scanTagHandle directive mark) := by
  unfold Sc.scanTagHandle; rel
macro_rules | `(tactic| rel_close) => `(tactic| exact RelS.scanTagHandle _ _)
theorem RelS.scanUriEscapesGo (mark : Marker) : ∀ (f1 f2 : Nat) (x0 : Nat) (x1 : Nat), RelS (scanUriEscapesGo mark f1 x0 x1) (scanUriEscapesGo mark f2 x0 x1) := by
  intro f1
  induction f1 with
  | zero => intro f2 x0 x1; unfold Sc.scanUriEscapesGo; exact RelS.panicL _ _
  | succ n1 ih =>
    intro f2 x0 x1
    cases f2 with
    | zero => unfold Sc.scanUriEscapesGo; exact RelS.panicR _ _
    | succ n2 => unfold Sc.scanUriEscapesGo; rel
macro_rules | `(tactic| rel_close) => `(tactic| exact RelS.scanUriEscapesGo _ _ _ _ _)
set_option maxHeartbeats 4000000 in
theorem RelS.scanUriEscapes (mark : Marker) : RelS (scanUriEscapes mark) (scanUriEscapes mark) := by
  unfold Sc.scanUriEscapes; rel
macro_rules | `(tactic| rel_close) => `(tactic| exact RelS.scanUriEscapes _)
theorem RelS.scanUriLoop (p : Char → Bool) (mark : Marker) : ∀ (f1 f2 : Nat) (x0 : Str) (x1 : Nat), RelS (scanUriLoop p mark f1 x0 x1) (scanUriLoop p mark f2 x0 x1) := by
  intro f1
  induction f1 with
  | zero => intro f2 x0 x1; unfold Sc.scanUriLoop; exact RelS.panicL _ _
  | succ n1 ih =>
    intro f2 x0 x1
    cases f2 with
    | zero => unfold Sc.scanUriLoop; exact RelS.panicR _ _
    | succ n2 => unfold Sc.scanUriLoop; rel
macro_rules | `(tactic| rel_close) => `(tactic| exact RelS.scanUriLoop _ _ _ _ _ _)
set_option maxHeartbeats 4000000 in
theorem RelS.scanTagPrefix (startMark : Marker) : RelS (scanTagPrefix startMark) (scanTagPrefix startMark) := by
  unfold Sc.scanTagPrefix; rel
macro_rules | `(tactic| rel_close) => `(tactic| exact RelS.scanTagPrefix _)
set_option maxHeartbeats 4000000 in
theorem RelS.scanTagDirectiveValue (mark : Marker) : RelS (scanTagDirectiveValue mark) (scanTagDirectiveValue mark) := by
  unfold Sc.scanTagDirectiveValue; rel
macro_rules | `(tactic| rel_close) => `(tactic| exact RelS.scanTagDirectiveValue _)
set_option maxHeartbeats 4000000 in
theorem RelS.scanDirective  : RelS (scanDirective ) (scanDirective ) := by
  unfold Sc.scanDirective; rel
macro_rules | `(tactic| rel_close) => `(tactic| exact RelS.scanDirective )
set_option maxHeartbeats 4000000 in
theorem RelS.fetchDirective  : RelS (fetchDirective ) (fetchDirective ) := by
  unfold Sc.fetchDirective; rel
macro_rules | `(tactic| rel_close) => `(tactic| exact RelS.fetchDirective )
set_option maxHeartbeats 4000000 in
theorem RelS.scanVerbatimTag (startMark : Marker) : RelS (scanVerbatimTag startMark) (scanVerbatimTag startMark) := by
  unfold Sc.scanVerbatimTag; rel
macro_rules | `(tactic| rel_close) => `(tactic| exact RelS.scanVerbatimTag _)
set_option maxHeartbeats 4000000 in
theorem RelS.scanTagShorthandSuffix (head : Str) (mark : Marker) : RelS (scanTagShorthandSuffix head mark) (scanTagShorthandSuffix head mark) := by
  unfold Sc.scanTagShorthandSuffix; rel
macro_rules | `(tactic| rel_close) => `(tactic| exact RelS.scanTagShorthandSuffix _ _)
set_option maxHeartbeats 4000000 in
theorem RelS.scanTag  : RelS (scanTag ) (scanTag ) := by
  unfold Sc.scanTag; rel
macro_rules | `(tactic| rel_close) => `(tactic| exact RelS.scanTag )
set_option maxHeartbeats 4000000 in
theorem RelS.fetchTag  : RelS (fetchTag ) (fetchTag ) := by
  unfold Sc.fetchTag; rel
macro_rules | `(tactic| rel_close) => `(tactic| exact RelS.fetchTag )
theorem RelS.scanAnchorGo  : ∀ (f1 f2 : Nat) (x0 : Str), RelS (scanAnchorGo  f1 x0) (scanAnchorGo  f2 x0) := by
  intro f1
  induction f1 with
  | zero => intro f2 x0; unfold Sc.scanAnchorGo; exact RelS.panicL _ _
  | succ n1 ih =>
    intro f2 x0
    cases f2 with
    | zero => unfold Sc.scanAnchorGo; exact RelS.panicR _ _
    | succ n2 => unfold Sc.scanAnchorGo; rel
macro_rules | `(tactic| rel_close) => `(tactic| exact RelS.scanAnchorGo  _ _ _)
set_option maxHeartbeats 4000000 in
theorem RelS.scanAnchor (alias : Bool) : RelS (scanAnchor alias) (scanAnchor alias) := by
  unfold Sc.scanAnchor; rel
macro_rules | `(tactic| rel_close) => `(tactic| exact RelS.scanAnchor _)
set_option maxHeartbeats 4000000 in
theorem RelS.fetchAnchor (alias : Bool) : RelS (fetchAnchor alias) (fetchAnchor alias) := by
  unfold Sc.fetchAnchor; rel
macro_rules | `(tactic| rel_close) => `(tactic| exact RelS.fetchAnchor _)
theorem pushImplState_inp (st : ImplState) (s : Sc) (j : In) :
    pushImplState st { s with inp := j } = { pushImplState st s with inp := j } := by
  unfold pushImplState; cases s; first | rfl | (dsimp only; (repeat' split) <;> rfl)
macro_rules | `(tactic| rel_close) => `(tactic| exact RelS.modS _ (pushImplState_inp _))
set_option maxHeartbeats 4000000 in
theorem RelS.fetchFlowCollectionStart (tok : TokenType) : RelS (fetchFlowCollectionStart tok) (fetchFlowCollectionStart tok) := by
  unfold Sc.fetchFlowCollectionStart; rel
macro_rules | `(tactic| rel_close) => `(tactic| exact RelS.fetchFlowCollectionStart _)
theorem popExplicitMapping_inp  (s : Sc) (j : In) :
    popExplicitMapping { s with inp := j } = { popExplicitMapping s with inp := j } := by
  unfold popExplicitMapping; cases s; first | rfl | (dsimp only; (repeat' split) <;> rfl)
macro_rules | `(tactic| rel_close) => `(tactic| exact RelS.modS _ (popExplicitMapping_inp ))
set_option maxHeartbeats 4000000 in
theorem RelS.closeFlowState (tok : TokenType) : RelS (closeFlowState tok) (closeFlowState tok) := by
  unfold Sc.closeFlowState; rel
macro_rules | `(tactic| rel_close) => `(tactic| exact RelS.closeFlowState _)
set_option maxHeartbeats 4000000 in
theorem RelS.fetchFlowCollectionEnd (tok : TokenType) : RelS (fetchFlowCollectionEnd tok) (fetchFlowCollectionEnd tok) := by
  unfold Sc.fetchFlowCollectionEnd; rel
macro_rules | `(tactic| rel_close) => `(tactic| exact RelS.fetchFlowCollectionEnd _)
set_option maxHeartbeats 4000000 in
theorem RelS.fetchFlowEntry  : RelS (fetchFlowEntry ) (fetchFlowEntry ) := by
  unfold Sc.fetchFlowEntry; rel
macro_rules | `(tactic| rel_close) => `(tactic| exact RelS.fetchFlowEntry )
theorem RelS.anchorIndentCheck  (s : Sc) (j : In) : RelS (anchorIndentCheck s) (anchorIndentCheck { s with inp := j }) := by
  unfold Sc.anchorIndentCheck; dsimp only; rel
macro_rules | `(tactic| rel_close) => `(tactic| exact RelS.anchorIndentCheck  _ _)
set_option maxHeartbeats 4000000 in
theorem RelS.blockEntryTabCheck (r : SkipTabs) : RelS (blockEntryTabCheck r) (blockEntryTabCheck r) := by
  unfold Sc.blockEntryTabCheck; rel
macro_rules | `(tactic| rel_close) => `(tactic| exact RelS.blockEntryTabCheck _)
set_option maxHeartbeats 4000000 in
theorem RelS.rollIfBreakOrFlow  : RelS (rollIfBreakOrFlow ) (rollIfBreakOrFlow ) := by
  unfold Sc.rollIfBreakOrFlow; rel
macro_rules | `(tactic| rel_close) => `(tactic| exact RelS.rollIfBreakOrFlow )
set_option maxHeartbeats 4000000 in
theorem RelS.fetchBlockEntryTail  : RelS (fetchBlockEntryTail ) (fetchBlockEntryTail ) := by
  unfold Sc.fetchBlockEntryTail; rel
macro_rules | `(tactic| rel_close) => `(tactic| exact RelS.fetchBlockEntryTail )
theorem RelS.fetchBlockEntryBody  (s : Sc) (j : In) : RelS (fetchBlockEntryBody s) (fetchBlockEntryBody { s with inp := j }) := by
  unfold Sc.fetchBlockEntryBody; dsimp only; rel
macro_rules | `(tactic| rel_close) => `(tactic| exact RelS.fetchBlockEntryBody  _ _)
set_option maxHeartbeats 4000000 in
theorem RelS.fetchBlockEntry  : RelS (fetchBlockEntry ) (fetchBlockEntry ) := by
  unfold Sc.fetchBlockEntry; rel
macro_rules | `(tactic| rel_close) => `(tactic| exact RelS.fetchBlockEntry )
set_option maxHeartbeats 4000000 in
theorem RelS.fetchDocumentIndicator (t : TokenType) : RelS (fetchDocumentIndicator t) (fetchDocumentIndicator t) := by
  unfold Sc.fetchDocumentIndicator; rel
macro_rules | `(tactic| rel_close) => `(tactic| exact RelS.fetchDocumentIndicator _)

end SaphyrModel.C10
