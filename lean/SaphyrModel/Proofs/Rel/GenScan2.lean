import SaphyrModel.Proofs.Rel.BespokeClass
set_option linter.unusedSimpArgs false
set_option linter.unusedVariables false
set_option linter.unusedSectionVars false
namespace SaphyrModel.C10
open SaphyrModel SaphyrModel.Sc

variable [inst : Bespoke]
include inst
macro_rules | `(tactic| rel_close) => `(tactic| first
    | exact line_rel _ | exact Bespoke.indent _ _ _ _ | exact plainChunks_rel _ _ _)

set_option maxHeartbeats 4000000 in
theorem RelS.readBreak (acc : Str) : RelS (readBreak acc) (readBreak acc) := by
  unfold Sc.readBreak; rel
macro_rules | `(tactic| rel_close) => `(tactic| exact RelS.readBreak _)
theorem RelS.skipSpaces  : ∀ (f1 f2 : Nat), RelS (skipSpaces  f1 ) (skipSpaces  f2 ) := by
  intro f1
  induction f1 with
  | zero => intro f2 ; unfold Sc.skipSpaces; exact RelS.panicL _ _
  | succ n1 ih =>
    intro f2 
    cases f2 with
    | zero => unfold Sc.skipSpaces; exact RelS.panicR _ _
    | succ n2 => unfold Sc.skipSpaces; rel
macro_rules | `(tactic| rel_close) => `(tactic| exact RelS.skipSpaces  _ _ )
theorem RelS.skipBlockScalarFirstLineIndentGo  : ∀ (f1 f2 : Nat) (x0 : Nat) (x1 : Str), RelS (skipBlockScalarFirstLineIndentGo  f1 x0 x1) (skipBlockScalarFirstLineIndentGo  f2 x0 x1) := by
  intro f1
  induction f1 with
  | zero => intro f2 x0 x1; unfold Sc.skipBlockScalarFirstLineIndentGo; exact RelS.panicL _ _
  | succ n1 ih =>
    intro f2 x0 x1
    cases f2 with
    | zero => unfold Sc.skipBlockScalarFirstLineIndentGo; exact RelS.panicR _ _
    | succ n2 => unfold Sc.skipBlockScalarFirstLineIndentGo; rel
macro_rules | `(tactic| rel_close) => `(tactic| exact RelS.skipBlockScalarFirstLineIndentGo  _ _ _ _)
set_option maxHeartbeats 4000000 in
theorem RelS.skipBlockScalarFirstLineIndent (breaks : Str) : RelS (skipBlockScalarFirstLineIndent breaks) (skipBlockScalarFirstLineIndent breaks) := by
  unfold Sc.skipBlockScalarFirstLineIndent; rel
macro_rules | `(tactic| rel_close) => `(tactic| exact RelS.skipBlockScalarFirstLineIndent _)
theorem RelS.blockScalarLines (literal : Bool) (indent : Nat) : ∀ (f1 f2 : Nat) (x0 : BlkAcc), RelS (blockScalarLines literal indent f1 x0) (blockScalarLines literal indent f2 x0) := by
  intro f1
  induction f1 with
  | zero => intro f2 x0; unfold Sc.blockScalarLines; exact RelS.panicL _ _
  | succ n1 ih =>
    intro f2 x0
    cases f2 with
    | zero => unfold Sc.blockScalarLines; exact RelS.panicR _ _
    | succ n2 => unfold Sc.blockScalarLines; rel
macro_rules | `(tactic| rel_close) => `(tactic| exact RelS.blockScalarLines _ _ _ _ _)
set_option maxHeartbeats 4000000 in
theorem RelS.blockHeaderDigit (startMark : Marker) (ch : Chomping) : RelS (blockHeaderDigit startMark ch) (blockHeaderDigit startMark ch) := by
  unfold Sc.blockHeaderDigit; rel
macro_rules | `(tactic| rel_close) => `(tactic| exact RelS.blockHeaderDigit _ _)
set_option maxHeartbeats 4000000 in
theorem RelS.blockHeaderChomp (d : Char) : RelS (blockHeaderChomp d) (blockHeaderChomp d) := by
  unfold Sc.blockHeaderChomp; rel
macro_rules | `(tactic| rel_close) => `(tactic| exact RelS.blockHeaderChomp _)
set_option maxHeartbeats 4000000 in
theorem RelS.blockHeader (startMark : Marker) (c : Char) (isDigit : Bool) : RelS (blockHeader startMark c isDigit) (blockHeader startMark c isDigit) := by
  unfold Sc.blockHeader; rel
macro_rules | `(tactic| rel_close) => `(tactic| exact RelS.blockHeader _ _ _)
set_option maxHeartbeats 4000000 in
theorem RelS.blockChompingBreak  : RelS (blockChompingBreak ) (blockChompingBreak ) := by
  unfold Sc.blockChompingBreak; rel
macro_rules | `(tactic| rel_close) => `(tactic| exact RelS.blockChompingBreak )
theorem RelS.blockIndent (increment : Nat) (s : Sc) (j : In) : RelS (blockIndent increment s) (blockIndent increment { s with inp := j }) := by
  unfold Sc.blockIndent; dsimp only; rel
macro_rules | `(tactic| rel_close) => `(tactic| exact RelS.blockIndent _ _ _)
theorem RelS.blockMarkerCheck (indent : Nat) (s : Sc) (j : In) : RelS (blockMarkerCheck indent s) (blockMarkerCheck indent { s with inp := j }) := by
  unfold Sc.blockMarkerCheck; dsimp only; rel
macro_rules | `(tactic| rel_close) => `(tactic| exact RelS.blockMarkerCheck _ _ _)
theorem RelS.blockFinish (chomping : Chomping) (indent : Nat) (a : BlkAcc) (s : Sc) (j : In) : RelS (blockFinish chomping indent a s) (blockFinish chomping indent a { s with inp := j }) := by
  unfold Sc.blockFinish; dsimp only; rel
macro_rules | `(tactic| rel_close) => `(tactic| exact RelS.blockFinish _ _ _ _ _)
theorem RelS.blockContent (literal : Bool) (chomping : Chomping) (indent : Nat) (trailingBreaks : Str) (s : Sc) (j : In) : RelS (blockContent literal chomping indent trailingBreaks s) (blockContent literal chomping indent trailingBreaks { s with inp := j }) := by
  unfold Sc.blockContent; dsimp only; rel
macro_rules | `(tactic| rel_close) => `(tactic| exact RelS.blockContent _ _ _ _ _ _)
set_option maxHeartbeats 4000000 in
theorem RelS.blockAfterHeader (literal : Bool) (startMark : Marker) (chomping : Chomping) (increment : Nat) (chompingBreak : Str) : RelS (blockAfterHeader literal startMark chomping increment chompingBreak) (blockAfterHeader literal startMark chomping increment chompingBreak) := by
  unfold Sc.blockAfterHeader; rel
macro_rules | `(tactic| rel_close) => `(tactic| exact RelS.blockAfterHeader _ _ _ _ _)
set_option maxHeartbeats 4000000 in
theorem RelS.scanBlockScalarBody (literal : Bool) (startMark : Marker) : RelS (scanBlockScalarBody literal startMark) (scanBlockScalarBody literal startMark) := by
  unfold Sc.scanBlockScalarBody; rel
macro_rules | `(tactic| rel_close) => `(tactic| exact RelS.scanBlockScalarBody _ _)
set_option maxHeartbeats 4000000 in
theorem RelS.scanBlockScalar (literal : Bool) : RelS (scanBlockScalar literal) (scanBlockScalar literal) := by
  unfold Sc.scanBlockScalar; rel
macro_rules | `(tactic| rel_close) => `(tactic| exact RelS.scanBlockScalar _)
set_option maxHeartbeats 4000000 in
theorem RelS.fetchBlockScalar (literal : Bool) : RelS (fetchBlockScalar literal) (fetchBlockScalar literal) := by
  unfold Sc.fetchBlockScalar; rel
macro_rules | `(tactic| rel_close) => `(tactic| exact RelS.fetchBlockScalar _)

end SaphyrModel.C10
