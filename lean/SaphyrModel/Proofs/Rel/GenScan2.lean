import SaphyrModel.Proofs.Rel.BespokeClass
set_option linter.unusedSimpArgs false
set_option linter.unusedVariables false
set_option linter.unusedSectionVars false
namespace SaphyrModel.C10
open SaphyrModel SaphyrModel.Sc

variable [inst : Bespoke]
include inst
macro_rules | `(tactic| rel_close) => `(tactic| first
    | exact Bespoke.line _ | exact Bespoke.indent _ _ _ _ | exact Bespoke.chunks _ _ _)

set_option maxHeartbeats 4000000 in
theorem RelS.readBreak (acc : Str) : RelS (readBreak acc) (readBreak acc) := by
  unfold Sc.readBreak; rel
macro_rules | `(tactic| rel_close) => `(tactic| exact RelS.readBreak _)
theorem RelS.skipSpaces  : ∀ (f1 f2 : Nat), RelS (skipSpaces  f1 ) (skipSpaces  f2 ) := by
  intro f1
  induction f1 with
  | zero => intro f2 ; unfold Sc.skipSpaces; exact RelS.panicL _ _
  | succ n1 ih =>
    intro f2 
    cases f2 with
    | zero => unfold Sc.skipSpaces; exact RelS.panicR _ _
    | succ n2 => unfold Sc.skipSpaces; rel
macro_rules | `(tactic| rel_close) => `(tactic| exact RelS.skipSpaces  _ _ )
theorem RelS.skipBlockScalarFirstLineIndentGo  : ∀ (f1 f2 : Nat) (x0 : Nat) (x1 : Str), RelS (skipBlockScalarFirstLineIndentGo  f1 x0 x1) (skipBlockScalarFirstLineIndentGo  f2 x0 x1) := by
  intro f1
  induction f1 with
  | zero => intro f2 x0 x1; unfold Sc.skipBlockScalarFirstLineIndentGo; exact RelS.panicL _ _
  | succ n1 ih =>
    intro f2 x0 x1
    cases f2 with
    | zero => unfold Sc.skipBlockScalarFirstLineIndentGo; exact RelS.panicR _ _
    | succ n2 => unfold Sc.skipBlockScalarFirstLineIndentGo; rel
macro_rules | `(tactic| rel_close) => `(tactic| exact RelS.skipBlockScalarFirstLineIndentGo  _ _ _ _)
set_option maxHeartbeats 4000000 in
theorem RelS.skipBlockScalarFirstLineIndent (breaks : Str) : RelS (skipBlockScalarFirstLineIndent breaks) (skipBlockScalarFirstLineIndent breaks) := by
  unfold Sc.skipBlockScalarFirstLineIndent; rel
macro_rules | `(tactic| rel_close) => `(tactic| exact RelS.skipBlockScalarFirstLineIndent _)
theorem RelS.blockScalarLines (literal : Bool) (indent : Nat) : ∀ (f1 f2 : Nat) (x0 : BlkAcc), RelS (blockScalarLines literal indent f1 x0) (blockScalarLines literal indent f2 x0) := by
  intro f1
  induction f1 with
  | zero => intro f2 x0; unfold Sc.blockScalarLines; exact RelS.panicL _ _
  | succ n1 ih =>
    intro f2 x0
    cases f2 with
    | zero => unfold Sc.blockScalarLines; exact RelS.panicR _ _
    | succ n2 => unfold Sc.blockScalarLines; rel
macro_rules | `(tactic| rel_close) => `(tactic| exact RelS.blockScalarLines _ _ _ _ _)

end SaphyrModel.C10
