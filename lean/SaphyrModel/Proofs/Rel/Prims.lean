import SaphyrModel.Proofs.Rel.Base
namespace SaphyrModel.C10
open SaphyrModel SaphyrModel.Sc

/-- a computation that neither reads nor writes the input -/
theorem RelS.noInp {α : Type} {m : S α}
    (h : ∀ s j, m { s with inp := j } = match m s with
      | .ok (a, s') => .ok (a, { s' with inp := j }) | .err e => .err e | .panic p => .panic p)
    (hi : ∀ s a s', m s = .ok (a, s') → s'.inp = s.inp) : RelS m m := by
  constructor
  intro s t hst
  rw [hst.rest, h s t.inp]
  cases hm : m s with
  | ok r =>
    obtain ⟨a, s'⟩ := r
    refine ⟨rfl, ⟨?_, rfl⟩⟩
    show SimIn s'.inp t.inp
    rw [hi s a s' hm]; exact hst.inp
  | err e => rfl
  | panic p => simp [OutS]

syntax "rel_close" : tactic
macro_rules | `(tactic| rel_close) => `(tactic| first
    | exact RelS.pure _ | exact RelS.getMark | exact RelS.err _ _ | exact RelS.panicL _ _ | exact RelS.panicR _ _
    | assumption | apply_assumption)
macro_rules | `(tactic| rel_close) => `(tactic| (apply RelS.liftI; first
    | exact lookahead_agree _ | exact skip_agree | exact skipN_agree _ | exact peek_agree | exact peekNth_agree _
    | exact lookCh_agree' | exact nextCharIs_agree _ | exact nthCharIs_agree _ _
    | exact next2Are_agree _ _ (by decide) (by decide) | exact next3Are_agree _ _ _ (by decide) (by decide) (by decide)
    | exact nextIsDocumentIndicator_agree | exact nextIsDocumentStart_agree | exact nextIsDocumentEnd_agree
    | exact nextIsBlankOrBreak_agree | exact nextIsBlankOrBreakz_agree | exact nextIsBlank_agree | exact nextIsBreak_agree
    | exact nextIsBreakz_agree | exact nextIsZ_agree | exact nextIsFlow_agree | exact nextIsDigit_agree | exact nextIsAlpha_agree
    | exact nextCanBePlainScalar_agree _ | exact skipWhileNonBreakz_agree | exact skipWhileBlank_agree
    | exact fetchWhileIsAlpha_agree _ | exact skipWsToEol_agree _ (Or.inl rfl) | exact skipWsToEol_agree _ (Or.inr rfl)))
macro_rules | `(tactic| rel_close) => `(tactic| (apply RelS.modS; intro s j; first | rfl | (split <;> rfl) | (cases s; dsimp only; (repeat' split) <;> rfl)))

macro "rel" : tactic => `(tactic|
  repeat' (first
    | rel_close
    | (guard_target = RelS (getS >>= _) (getS >>= _); apply RelS.getS_bind; intro _ _; try dsimp only)
    | apply RelS.bind
    | apply RelS.ite
    | intro _
    | split))

theorem RelS.lookahead (n) : RelS (lookahead n) (lookahead n) := by unfold Sc.lookahead; rel
theorem RelS.peek : RelS peek peek := by unfold Sc.peek; rel
theorem RelS.peekNth (n) : RelS (peekNth n) (peekNth n) := by unfold Sc.peekNth; rel
theorem RelS.lookCh : RelS lookCh lookCh := by unfold Sc.lookCh; rel
theorem RelS.advance (n) : RelS (advance n) (advance n) := by unfold Sc.advance; rel
theorem RelS.pushTok (sp t) : RelS (pushTok sp t) (pushTok sp t) := by unfold Sc.pushTok; rel
macro_rules | `(tactic| rel_close) => `(tactic| first
    | exact RelS.lookahead _ | exact RelS.peek | exact RelS.peekNth _ | exact RelS.lookCh | exact RelS.advance _ | exact RelS.pushTok _ _)
theorem RelS.skipBlank : RelS skipBlank skipBlank := by unfold Sc.skipBlank; rel
theorem RelS.skipNonBlank : RelS skipNonBlank skipNonBlank := by unfold Sc.skipNonBlank; rel
theorem RelS.skipNNonBlank (n) : RelS (skipNNonBlank n) (skipNNonBlank n) := by unfold Sc.skipNNonBlank; rel
theorem RelS.skipNl : RelS skipNl skipNl := by unfold Sc.skipNl; rel
macro_rules | `(tactic| rel_close) => `(tactic| first
    | exact RelS.skipBlank | exact RelS.skipNonBlank | exact RelS.skipNNonBlank _ | exact RelS.skipNl)
theorem RelS.skipLinebreak : RelS skipLinebreak skipLinebreak := by unfold Sc.skipLinebreak; rel
theorem RelS.skipBreak : RelS skipBreak skipBreak := by unfold Sc.skipBreak; rel
theorem RelS.allowSimpleKey : RelS allowSimpleKey allowSimpleKey := by unfold Sc.allowSimpleKey; rel
theorem RelS.disallowSimpleKey : RelS disallowSimpleKey disallowSimpleKey := by unfold Sc.disallowSimpleKey; rel

theorem RelS.insertToken (pos : Nat) (tok : Token) : RelS (insertToken pos tok) (insertToken pos tok) := by
  constructor
  intro s t h
  rw [h.rest]
  unfold Sc.insertToken
  dsimp only
  split
  · exact ⟨rfl, ⟨h.inp, rfl⟩⟩
  · simp [OutS]
theorem RelS.tokenPos (n : Nat) : RelS (tokenPos n) (tokenPos n) := by
  constructor
  intro s t h
  rw [h.rest]
  unfold Sc.tokenPos
  dsimp only
  split
  · exact ⟨rfl, ⟨h.inp, rfl⟩⟩
  · simp [OutS]
theorem RelS.isWithinBlock : RelS isWithinBlock isWithinBlock := by
  constructor
  intro s t h
  rw [h.rest]
  exact ⟨rfl, ⟨h.inp, rfl⟩⟩
macro_rules | `(tactic| rel_close) => `(tactic| first
    | exact RelS.insertToken _ _ | exact RelS.tokenPos _ | exact RelS.isWithinBlock)

/-- `skip_ws_to_eol` agrees for every mode (with a `Result` mode the string side stops at its assertion) -/
theorem skipWsToEol_agree_all (t : SkipTabs) : Agrees (In.skipWsToEol t) := by
  cases t with
  | yes => exact skipWsToEol_agree _ (Or.inl rfl)
  | no => exact skipWsToEol_agree _ (Or.inr rfl)
  | result a b =>
    intro i j h
    have : In.skipWsToEol (.result a b) i = .panic .strSkipWsAssert := by simp [In.skipWsToEol, h.ki]
    rw [this]; simp [AgreeR]
macro_rules | `(tactic| rel_close) => `(tactic| exact RelS.liftI (skipWsToEol_agree_all _))

end SaphyrModel.C10
