import SaphyrModel.Proofs.Rel.GenScan3
/-! C10 for whole runs of the scanner: the token streams of the two back-ends agree. -/
namespace SaphyrModel.C10
open SaphyrModel SaphyrModel.Sc

variable [inst : Bespoke]
include inst

/-- runs of `Scanner::next` from related states deliver the same tokens and end the same way, unless one
    of them stops at a panic site -/
theorem scanAll_rel : ∀ (f1 f2 : Nat) (s t : Sc) (acc : List Token), Sim s t →
    (∀ p, (scanAll f1 s acc).2.1 ≠ .panic p) → (∀ p, (scanAll f2 t acc).2.1 ≠ .panic p) →
    (scanAll f1 s acc).1 = (scanAll f2 t acc).1 ∧ (scanAll f1 s acc).2.1 = (scanAll f2 t acc).2.1 := by
  intro f1
  induction f1 with
  | zero => intro f2 s t acc _ h1 _; exact absurd rfl (h1 .fuel)
  | succ n1 ih =>
    intro f2 s t acc hst h1 h2
    cases f2 with
    | zero => exact absurd rfl (h2 .fuel)
    | succ n2 =>
      have hr := (RelS.nextToken).out s t hst
      unfold scanAll at h1 h2 ⊢
      cases hs : nextToken s with
      | panic p => simp only [hs] at h1; exact absurd rfl (h1 p)
      | err e =>
        cases ht : nextToken t with
        | panic p => simp only [ht] at h2; exact absurd rfl (h2 p)
        | err e2 =>
          simp only [hs, ht, OutS] at hr
          simp only [hr]
          exact ⟨trivial, trivial⟩
        | ok q => obtain ⟨b, t'⟩ := q; simp only [hs, ht, OutS] at hr
      | ok r =>
        obtain ⟨a, s'⟩ := r
        cases ht : nextToken t with
        | panic p => simp only [ht] at h2; exact absurd rfl (h2 p)
        | err e2 => simp only [hs, ht, OutS] at hr
        | ok q =>
          obtain ⟨b, t'⟩ := q
          simp only [hs, ht, OutS] at hr
          obtain ⟨rfl, hsim⟩ := hr
          cases a with
          | none => simp
          | some tk =>
            simp only [hs] at h1
            simp only [ht] at h2
            simpa using ih n2 s' t' (tk :: acc) hsim h1 h2

/-- **C10 for the scanner, modulo the three buffer-dependent fast paths** (`Bespoke`): for every text
    and every buffer capacity the string back-end and the buffered back-end deliver the same tokens —
    values and spans — and the same outcome, whenever neither run stops at a panic site. -/
theorem scan_backends_agree (text : Str) (cap cap' fuel fuel' : Nat) :
    let a := scanAll fuel (mkSc .str cap text) []
    let b := scanAll fuel' (mkSc .buf cap' text) []
    (∀ p, a.2.1 ≠ .panic p) → (∀ p, b.2.1 ≠ .panic p) → a.1 = b.1 ∧ a.2.1 = b.2.1 := by
  intro a b
  exact scanAll_rel fuel fuel' _ _ [] ⟨⟨rfl, rfl, fun _ => rfl⟩, rfl⟩

end SaphyrModel.C10
