import SaphyrModel.Proofs.Rel.GenScan1
import SaphyrModel.Proofs.Rel.Chunks
import SaphyrModel.Proofs.Rel.Line
/-! The places where the scanner's own code branches on the state of the look-ahead buffer
(`buf_is_empty`, `bufmaxlen`): they compute the same thing along different paths on the two
back-ends. Their agreement is stated here as a class so that the lifting through the rest of the
scanner can be done first; two of the three such places are proved: the chunked word loop of `scan_plain_scalar` in `Rel/Chunks.lean`
(`plainChunks_rel`) and `scan_block_scalar_content_line` in `Rel/Line.lean` (`line_rel`). What remains as a
hypothesis is `skip_block_scalar_indent`. -/
namespace SaphyrModel.C10
open SaphyrModel SaphyrModel.Sc

class Bespoke : Prop where
  /-- `skip_block_scalar_indent`: one look-ahead of `bufmaxlen` when the indentation fits, chunks otherwise -/
  indent : ∀ ind f1 f2 b, RelS (skipBlockScalarIndent ind f1 b) (skipBlockScalarIndent ind f2 b)

end SaphyrModel.C10
