import SaphyrModel.Proofs.Rel.GenScan1
/-! The three places where the scanner's own code branches on the state of the look-ahead buffer
(`buf_is_empty`, `bufmaxlen`): they compute the same thing along different paths on the two
back-ends. Their agreement is stated here as a class so that the lifting through the rest of the
scanner can be done first; `Rel/Bespoke.lean` is where instances are proved. -/
namespace SaphyrModel.C10
open SaphyrModel SaphyrModel.Sc

class Bespoke : Prop where
  /-- `scan_block_scalar_content_line`: buffered characters first, then raw reads behind the buffer -/
  line : ∀ str, RelS (scanBlockScalarContentLine str) (scanBlockScalarContentLine str)
  /-- `skip_block_scalar_indent`: one look-ahead of `bufmaxlen` when the indentation fits, chunks otherwise -/
  indent : ∀ ind f1 f2 b, RelS (skipBlockScalarIndent ind f1 b) (skipBlockScalarIndent ind f2 b)
  /-- the word loop of `scan_plain_scalar`: chunks of `bufmaxlen - 1` characters per look-ahead request -/
  chunks : ∀ f1 f2 str, RelS (plainChunks f1 str) (plainChunks f2 str)

end SaphyrModel.C10
