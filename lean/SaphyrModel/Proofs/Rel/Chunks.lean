import SaphyrModel.Proofs.Rel.GenScan1
/-! The word loop of `scan_plain_scalar` asks for `bufmaxlen` characters of look-ahead and then copies up
to `bufmaxlen - 1` characters before asking again. The two back-ends have different `bufmaxlen`s, so
their chunk boundaries fall at different places; the result is the same. -/
namespace SaphyrModel.C10
open SaphyrModel SaphyrModel.Sc

theorem M.bind_assoc {σ α β γ : Type} (m : M σ α) (f : α → M σ β) (g : β → M σ γ) :
    (m >>= f) >>= g = m >>= fun a => f a >>= g := by
  funext s
  simp only [Bind.bind]
  cases m s with
  | ok r => rfl
  | err e => rfl
  | panic p => rfl

theorem M.pure_bind {σ α β : Type} (a : α) (f : α → M σ β) : (Pure.pure a : M σ α) >>= f = f a := rfl

theorem M.ite_bind {σ α β : Type} (c : Prop) [Decidable c] (A B : M σ α) (f : α → M σ β) :
    (if c then A else B) >>= f = if c then A >>= f else B >>= f := by
  split <;> rfl

/-- what is left of `plainChunks` when `k` iterations of the current chunk remain -/
def chunkRest (f k : Nat) (str : Str) : S Str :=
  plainChunk k str >>= fun x => match x with
    | (str, fin) => if fin then Pure.pure str else plainChunks f str

theorem plainChunks_succ (f : Nat) (str : Str) :
    plainChunks (f + 1) str = bufmaxlen >>= fun cap => lookahead cap >>= fun _ => chunkRest f (cap - 1) str := by
  conv => lhs; unfold plainChunks
  rfl

theorem chunkRest_zero (f : Nat) (str : Str) : chunkRest f 0 str = plainChunks f str := by
  unfold chunkRest plainChunk
  rfl

theorem chunkRest_succ (f k : Nat) (str : Str) :
    chunkRest f (k + 1) str = getS >>= fun s => liftI In.nextIsBlankOrBreakz >>= fun b =>
      if b then Pure.pure str
      else liftI (In.nextCanBePlainScalar (s.flowLevel > 0)) >>= fun c =>
        if !c then Pure.pure str
        else peek >>= fun ch => skipNonBlank >>= fun _ => chunkRest f k (str ++ [ch]) := by
  conv => lhs; unfold chunkRest plainChunk
  simp only [M.bind_assoc]
  congr 1; funext s
  congr 1; funext b
  cases b
  · simp only [Bool.false_eq_true, if_false, M.bind_assoc]
    congr 1; funext c
    cases c
    · simp [M.pure_bind]
    · simp only [Bool.not_true, Bool.false_eq_true, if_false, M.bind_assoc]
      rfl
  · simp [M.pure_bind]

/-- a look-ahead request made by the string side alone changes nothing that matters -/
theorem RelS.stutterL {α : Type} (X : Nat → S α) (m2 : S α) (h : ∀ cap, RelS (X cap) m2) :
    RelS (Sc.bufmaxlen >>= fun cap => Sc.lookahead cap >>= fun _ => X cap) m2 := by
  constructor
  intro s t hst
  have hk := hst.inp.ki
  have e : (Sc.bufmaxlen >>= fun cap => Sc.lookahead cap >>= fun _ => X cap) s
      = X s.inp.bufmaxlen { s with inp := { s.inp with la := max s.inp.la s.inp.bufmaxlen } } := by
    simp [Bind.bind, Sc.bufmaxlen, Sc.lookahead, Sc.liftI, In.lookahead, hk]
  rw [e]
  refine (h _).out _ t ⟨⟨hk, hst.inp.kj, hst.inp.same⟩, ?_⟩
  conv => lhs; rw [hst.rest]

/-- … and one made by the buffered side alone moves characters into its buffer, nothing else -/
theorem RelS.stutterR {α : Type} (X : Nat → S α) (m1 : S α) (h : ∀ cap, RelS m1 (X cap)) :
    RelS m1 (Sc.bufmaxlen >>= fun cap => Sc.lookahead cap >>= fun _ => X cap) := by
  constructor
  intro s t hst
  have ha := lookahead_agree t.inp.bufmaxlen s.inp t.inp hst.inp
  have hl : In.lookahead t.inp.bufmaxlen s.inp = .ok ((), { s.inp with la := max s.inp.la t.inp.bufmaxlen }) := by
    simp [In.lookahead, hst.inp.ki]
  rw [hl] at ha
  cases hj : In.lookahead t.inp.bufmaxlen t.inp with
  | panic p =>
    have e : (Sc.bufmaxlen >>= fun cap => Sc.lookahead cap >>= fun _ => X cap) t = .panic p := by
      simp [Bind.bind, Sc.bufmaxlen, Sc.lookahead, Sc.liftI, hj]
    rw [e]; exact OutS.panicR _ _
  | err e0 => rw [hj] at ha; simp [AgreeR] at ha
  | ok q =>
    obtain ⟨u, j'⟩ := q
    rw [hj] at ha
    simp only [AgreeR] at ha
    have e : (Sc.bufmaxlen >>= fun cap => Sc.lookahead cap >>= fun _ => X cap) t = X t.inp.bufmaxlen { t with inp := j' } := by
      simp [Bind.bind, Sc.bufmaxlen, Sc.lookahead, Sc.liftI, hj]
    rw [e]
    refine (h _).out s _ ⟨⟨hst.inp.ki, ha.2.1.kj, ha.2.1.same⟩, ?_⟩
    show ({ t with inp := j' } : Sc) = { s with inp := j' }
    conv => lhs; rw [hst.rest]

theorem chunkRest_inner (n : Nat)
    (H : ∀ f1 f2 k1 k2 str, f1 + f2 < n → RelS (chunkRest f1 k1 str) (chunkRest f2 k2 str)) :
    ∀ (m f1 f2 k1 k2 : Nat) (str : Str), f1 + f2 = n → k1 + k2 ≤ m → RelS (chunkRest f1 k1 str) (chunkRest f2 k2 str) := by
  intro m
  induction m with
  | zero =>
    intro f1 f2 k1 k2 str hn hm
    have h1 : k1 = 0 := by omega
    subst h1
    rw [chunkRest_zero]
    cases f1 with
    | zero => unfold plainChunks; exact RelS.panicL _ _
    | succ f1' =>
      rw [plainChunks_succ]
      apply RelS.stutterL
      intro cap
      exact H f1' f2 (cap - 1) k2 str (by omega)
  | succ m' ih =>
    intro f1 f2 k1 k2 str hn hm
    cases k1 with
    | zero =>
      rw [chunkRest_zero]
      cases f1 with
      | zero => unfold plainChunks; exact RelS.panicL _ _
      | succ f1' =>
        rw [plainChunks_succ]
        apply RelS.stutterL
        intro cap
        exact H f1' f2 (cap - 1) k2 str (by omega)
    | succ k1' =>
      cases k2 with
      | zero =>
        rw [chunkRest_zero f2]
        cases f2 with
        | zero => unfold plainChunks; exact RelS.panicR _ _
        | succ f2' =>
          rw [plainChunks_succ]
          apply RelS.stutterR
          intro cap
          exact H f1 f2' (k1' + 1) (cap - 1) str (by omega)
      | succ k2' =>
        have key : ∀ str', RelS (chunkRest f1 k1' str') (chunkRest f2 k2' str') :=
          fun str' => ih f1 f2 k1' k2' str' hn (by omega)
        rw [chunkRest_succ, chunkRest_succ]
        clear H ih
        rel

theorem chunkRest_rel : ∀ (n f1 f2 k1 k2 : Nat) (str : Str), f1 + f2 = n → RelS (chunkRest f1 k1 str) (chunkRest f2 k2 str) := by
  intro n
  induction n using Nat.strongRecOn with
  | _ n ih =>
    intro f1 f2 k1 k2 str hn
    exact chunkRest_inner n (fun a b c d e hlt => ih (a + b) hlt a b c d e rfl) (k1 + k2) f1 f2 k1 k2 str hn (Nat.le_refl _)

/-- **`plainChunks` agrees across back-ends whatever their `bufmaxlen`s.** -/
theorem plainChunks_rel (f1 f2 : Nat) (str : Str) : RelS (plainChunks f1 str) (plainChunks f2 str) := by
  rw [← chunkRest_zero f1, ← chunkRest_zero f2]
  exact chunkRest_rel (f1 + f2) f1 f2 0 0 str rfl

end SaphyrModel.C10
