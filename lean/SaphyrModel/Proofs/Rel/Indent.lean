import SaphyrModel.Proofs.Rel.Line
import SaphyrModel.Proofs.Rel.Chunks
/-! `skip_block_scalar_indent`: the spaces in front of a block-scalar line are skipped up to the content
indentation. When the indentation fits the look-ahead buffer (`indent < bufmaxlen − 2`) one look-ahead
request is made and the spaces are skipped; otherwise the buffer is refilled again and again
(`skip_block_scalar_indent` in chunks). The two back-ends have different `bufmaxlen`s and may take
different paths; all paths skip the same spaces. -/
set_option linter.unusedSimpArgs false
namespace SaphyrModel.C10
open SaphyrModel SaphyrModel.Sc

/-- number of leading spaces of a text, at most `n` -/
def spc : Nat → Str → Nat
  | 0, _ => 0
  | _ + 1, [] => 0
  | n + 1, c :: r => if c == ' ' then spc n r + 1 else 0

theorem spc_le (n : Nat) (l : Str) : spc n l ≤ n := by
  induction n generalizing l with
  | zero => simp [spc]
  | succ n ih =>
    cases l with
    | nil => simp [spc]
    | cons c r =>
      simp only [spc]; split
      · exact Nat.succ_le_succ (ih r)
      · omega

theorem spc_le_len (n : Nat) (l : Str) : spc n l ≤ l.length := by
  induction n generalizing l with
  | zero => simp [spc]
  | succ n ih =>
    cases l with
    | nil => simp [spc]
    | cons c r =>
      simp only [spc, List.length_cons]; split
      · exact Nat.succ_le_succ (ih r)
      · omega

/-- one iteration of the inner loop, as an equation between outcomes -/
theorem sp_step (ind : Nat) (g : Bool) (f : Nat) (s : Sc) :
    skipBlockScalarIndentSpaces ind g (f + 1) s =
      if (g && s.inp.bufIsEmpty) = true then .ok ((), s)
      else if s.mark.col < ind then
        match Sc.peek s with
        | .ok (c, s1) =>
          if (c == ' ') = true then
            (match skipBlank s1 with
              | .ok (_, s2) => skipBlockScalarIndentSpaces ind g f s2
              | .err e => .err e | .panic p => .panic p)
          else .ok ((), s1)
        | .err e => .err e | .panic p => .panic p
      else .ok ((), s) := by
  conv => lhs; unfold skipBlockScalarIndentSpaces
  simp only [Bind.bind, getS]
  cases hb : (g && s.inp.bufIsEmpty) <;> simp only [hb, Bool.false_eq_true, ↓reduceIte]
  · by_cases hc : s.mark.col < ind
    · simp only [hc, ↓reduceIte]
      rcases Sc.peek s with ⟨⟨c, s1⟩⟩ | _ | _
      · simp only
        cases hcc : (c == ' ') <;> simp only [Bool.false_eq_true, ↓reduceIte]
        · rfl
        · rcases skipBlank s1 with ⟨⟨_, s2⟩⟩ | _ | _ <;> rfl
      · rfl
      · rfl
    · simp only [hc, ↓reduceIte]; rfl
  · rfl

-- lists -------------------------------------------------------------------------------------------

/-- texts that agree position by position (NUL beyond the end) -/
def TxtEq (l1 l2 : Str) : Prop := ∀ m, l1.getD m '\x00' = l2.getD m '\x00'

theorem TxtEq.refl (l : Str) : TxtEq l l := fun _ => rfl
theorem TxtEq.symm {a b : Str} (h : TxtEq a b) : TxtEq b a := fun m => (h m).symm
theorem TxtEq.trans {a b c : Str} (h1 : TxtEq a b) (h2 : TxtEq b c) : TxtEq a c := fun m => (h1 m).trans (h2 m)
theorem TxtEq.drop {a b : Str} (h : TxtEq a b) (k : Nat) : TxtEq (a.drop k) (b.drop k) := by
  intro m; rw [getD_drop, getD_drop]; exact h (k + m)
theorem TxtEq.tail {a b : Str} (h : TxtEq a b) : TxtEq a.tail b.tail := by
  intro m; rw [getD_tail, getD_tail]; exact h (m + 1)

theorem spc_txtEq : ∀ (n : Nat) (l1 l2 : Str), TxtEq l1 l2 → spc n l1 = spc n l2 := by
  intro n
  induction n with
  | zero => intro l1 l2 _; simp [spc]
  | succ n ih =>
    intro l1 l2 h
    have h0 := h 0
    cases l1 with
    | nil =>
      cases l2 with
      | nil => rfl
      | cons b r =>
        have hb : b = '\x00' := by simpa [List.getD_eq_getElem?_getD] using h0.symm
        subst hb; simp [spc]
    | cons a t =>
      cases l2 with
      | nil =>
        have ha : a = '\x00' := by simpa [List.getD_eq_getElem?_getD] using h0
        subst ha; simp [spc]
      | cons b r =>
        have hab : a = b := by simpa [List.getD_eq_getElem?_getD] using h0
        subst hab
        simp only [spc]
        have := ih t r (by intro m; have := h (m + 1); simpa [List.getD_eq_getElem?_getD] using this)
        rw [this]

/-- the count does not change when more text follows — if it stopped for a reason visible in `B` -/
theorem spc_append_stop : ∀ (n : Nat) (B I : Str), (spc n B = n ∨ spc n B < B.length) → spc n (B ++ I) = spc n B := by
  intro n
  induction n with
  | zero => intro B I _; simp [spc]
  | succ n ih =>
    intro B I h
    cases B with
    | nil => simp [spc] at h
    | cons c r =>
      simp only [spc, List.cons_append] at h ⊢
      by_cases hc : (c == ' ') = true
      · simp only [hc, ↓reduceIte] at h ⊢
        have h' : spc n r = n ∨ spc n r < r.length := by
          rcases h with h | h
          · left; omega
          · right; simp only [List.length_cons] at h; omega
        rw [ih r I h']
      · have hc' : (c == ' ') = false := by simpa using hc
        simp only [hc', Bool.false_eq_true, ↓reduceIte]

/-- … and when `B` consists of spaces only (and fewer than wanted), counting goes on in what follows -/
theorem spc_append_all : ∀ (n : Nat) (B I : Str), spc n B = B.length → spc n (B ++ I) = B.length + spc (n - B.length) I := by
  intro n
  induction n with
  | zero =>
    intro B I h
    have : B = [] := by cases B <;> simp_all [spc]
    subst this; simp [spc]
  | succ n ih =>
    intro B I h
    cases B with
    | nil => simp
    | cons c r =>
      simp only [spc, List.length_cons] at h
      by_cases hc : (c == ' ') = true
      · simp only [hc, ↓reduceIte] at h
        have hr : spc n r = r.length := by omega
        simp only [spc, List.cons_append, hc, ↓reduceIte, ih r I hr, List.length_cons]
        have : n + 1 - (r.length + 1) = n - r.length := by omega
        rw [this]; omega
      · simp only [hc, Bool.false_eq_true, ↓reduceIte] at h
        omega

/-- where the count stopped short of `n`, the next character is not a space -/
theorem spc_stop_head : ∀ (n : Nat) (l : Str), spc n l < n → (l.drop (spc n l)).headD '\x00' ≠ ' ' := by
  intro n
  induction n with
  | zero => intro l h; simp at h
  | succ n ih =>
    intro l h
    cases l with
    | nil => simp [spc]
    | cons c r =>
      simp only [spc] at h ⊢
      by_cases hc : (c == ' ') = true
      · simp only [hc, ↓reduceIte] at h ⊢
        simpa using ih r (by omega)
      · simp only [hc, Bool.false_eq_true, ↓reduceIte, List.drop_zero, List.headD_cons]
        intro h2; apply hc; rw [h2]; rfl

-- the inner loop on the two kinds of input ------------------------------------------------------------

theorem advS_mark_col (s : Sc) (n : Nat) (i : In) : (advS s n i).mark.col = s.mark.col + n := rfl
theorem advS_inp (s : Sc) (n : Nat) (i : In) : (advS s n i).inp = i := rfl

/-- string input, loop not stopped by the `buf_is_empty` guard: the spaces up to the indentation are skipped -/
theorem spaces_str (ind : Nat) (g : Bool) : ∀ (fuel : Nat) (u : Sc), u.inp.kind = .str → (g = false ∨ u.inp.la ≠ 0) →
    (∃ p, skipBlockScalarIndentSpaces ind g fuel u = .panic p) ∨
    skipBlockScalarIndentSpaces ind g fuel u = .ok ((), advS u (spc (ind - u.mark.col) u.inp.iter)
      { u.inp with iter := u.inp.iter.drop (spc (ind - u.mark.col) u.inp.iter) }) := by
  intro fuel
  induction fuel with
  | zero => intro u _ _; left; exact ⟨_, rfl⟩
  | succ f ih =>
    intro u hk hg
    have hguard : (g && u.inp.bufIsEmpty) = false := by
      rcases hg with rfl | hla
      · rfl
      · simp [In.bufIsEmpty, In.buflen, hk, hla]
    rw [sp_step, hguard]
    simp only [Bool.false_eq_true, ↓reduceIte]
    have hself : ({ u.inp with iter := u.inp.iter } : In) = u.inp := by cases hs : u.inp; rfl
    by_cases hc : u.mark.col < ind
    · simp only [hc, ↓reduceIte, peek_str_eval u hk]
      obtain ⟨m, hm⟩ : ∃ m, ind - u.mark.col = m + 1 := ⟨ind - u.mark.col - 1, by omega⟩
      cases hi : u.inp.iter with
      | nil =>
        right
        simp only [List.headD_nil, hm, spc, List.drop_nil]
        have : (('\x00' : Char) == ' ') = false := by decide
        simp only [this, Bool.false_eq_true, ↓reduceIte]
        have : ({ u.inp with iter := [] } : In) = u.inp := by first | (rw [← hi]; done) | (rw [← hi]; exact hself)
        first | rw [this, advS_zero] | (rw [this]; exact congrArg _ (congrArg _ (advS_zero u).symm))
      | cons c r =>
        simp only [List.headD_cons]
        by_cases hcs : (c == ' ') = true
        · simp only [hcs, ↓reduceIte, skipBlank_str_eval u hk, hi, List.tail_cons]
          have hk1 : (advS u 1 { u.inp with iter := r }).inp.kind = .str := hk
          have hg1 : g = false ∨ (advS u 1 { u.inp with iter := r }).inp.la ≠ 0 := hg
          rcases ih (advS u 1 { u.inp with iter := r }) hk1 hg1 with ⟨p, hp⟩ | hok
          · left; exact ⟨p, hp⟩
          · right
            have hcol : (advS u 1 { u.inp with iter := r }).mark.col = u.mark.col + 1 := rfl
            have hit : (advS u 1 { u.inp with iter := r }).inp.iter = r := rfl
            rw [hok, hcol, hit, show ind - (u.mark.col + 1) = m by omega, hm]
            simp only [spc, hcs, ↓reduceIte, advS_advS, List.drop_succ_cons]
            rw [Nat.add_comm 1]
            rfl
        · right
          have hcs' : (c == ' ') = false := by simpa using hcs
          simp only [hcs', Bool.false_eq_true, ↓reduceIte, hm, spc, List.drop_zero]
          have : ({ u.inp with iter := c :: r } : In) = u.inp := by first | (rw [← hi]; done) | (rw [← hi]; exact hself)
          rw [this, advS_zero]
    · right
      have h0 : ind - u.mark.col = 0 := by omega
      simp only [hc, ↓reduceIte, h0, spc, List.drop_zero, hself, advS_zero]

/-- string input with nothing requested so far and the guard on: the loop stops at once -/
theorem spaces_str_guard (ind : Nat) (f : Nat) (u : Sc) (hk : u.inp.kind = .str) (hla : u.inp.la = 0) :
    skipBlockScalarIndentSpaces ind true (f + 1) u = .ok ((), u) := by
  rw [sp_step]
  have : (true && u.inp.bufIsEmpty) = true := by simp [In.bufIsEmpty, In.buflen, hk, hla]
  simp only [this, ↓reduceIte]

/-- buffered input: the spaces that the buffer holds are skipped, up to the indentation; without the
    guard the loop cannot stop at the end of the buffer (it would `peek` at nothing) -/
theorem spaces_buf (ind : Nat) (g : Bool) : ∀ (fuel : Nat) (u : Sc), u.inp.kind = .buf →
    (∃ p, skipBlockScalarIndentSpaces ind g fuel u = .panic p) ∨
    (skipBlockScalarIndentSpaces ind g fuel u = .ok ((), advS u (spc (ind - u.mark.col) u.inp.buf)
      { u.inp with buf := u.inp.buf.drop (spc (ind - u.mark.col) u.inp.buf) }) ∧
     (g = false → spc (ind - u.mark.col) u.inp.buf = ind - u.mark.col ∨ spc (ind - u.mark.col) u.inp.buf < u.inp.buf.length)) := by
  intro fuel
  induction fuel with
  | zero => intro u _; left; exact ⟨_, rfl⟩
  | succ f ih =>
    intro u hk
    rw [sp_step, bufIsEmpty_buf _ hk]
    have hself : ({ u.inp with buf := u.inp.buf } : In) = u.inp := by cases hs : u.inp; rfl
    cases hb : u.inp.buf with
    | nil =>
      cases g
      · -- no guard
        simp only [Bool.false_and, Bool.false_eq_true, ↓reduceIte]
        by_cases hc : u.mark.col < ind
        · left
          simp only [hc, ↓reduceIte]
          exact ⟨.peekEmpty, by simp [Sc.peek, Sc.liftI, In.peek, hk, hb]⟩
        · right
          have h0 : ind - u.mark.col = 0 := by omega
          simp only [hc, ↓reduceIte, h0, spc, List.drop_nil]
          have : ({ u.inp with buf := [] } : In) = u.inp := by first | (rw [← hb]; done) | (rw [← hb]; exact hself)
          rw [this, advS_zero]
          exact ⟨rfl, fun _ => by first | exact Or.inl rfl | simp⟩
      · right
        simp only [List.isEmpty_nil, Bool.and_self, ↓reduceIte, List.drop_nil]
        have hz : spc (ind - u.mark.col) ([] : Str) = 0 := by cases (ind - u.mark.col) <;> rfl
        have : ({ u.inp with buf := [] } : In) = u.inp := by first | (rw [← hb]; done) | (rw [← hb]; exact hself)
        rw [hz, this, advS_zero]
        exact ⟨rfl, fun h => by cases h⟩
    | cons c r =>
      simp only [List.isEmpty_cons, Bool.and_false, Bool.false_eq_true, ↓reduceIte]
      by_cases hc : u.mark.col < ind
      · simp only [hc, ↓reduceIte, peek_buf_eval u hk c r hb]
        obtain ⟨m, hm⟩ : ∃ m, ind - u.mark.col = m + 1 := ⟨ind - u.mark.col - 1, by omega⟩
        by_cases hcs : (c == ' ') = true
        · simp only [hcs, ↓reduceIte, skipBlank_buf_eval u hk c r hb]
          have hk1 : (advS u 1 { u.inp with buf := r }).inp.kind = .buf := hk
          rcases ih (advS u 1 { u.inp with buf := r }) hk1 with ⟨p, hp⟩ | ⟨hok, hstop⟩
          · left; exact ⟨p, hp⟩
          · right
            have hm1 : ind - (advS u 1 { u.inp with buf := r }).mark.col = m := by rw [advS_mark_col]; omega
            have hcol : (advS u 1 { u.inp with buf := r }).mark.col = u.mark.col + 1 := rfl
            have hbf : (advS u 1 { u.inp with buf := r }).inp.buf = r := rfl
            rw [hok]
            rw [hcol, hbf, show ind - (u.mark.col + 1) = m by omega] at hstop ⊢
            refine ⟨?_, ?_⟩
            · rw [hm]
              simp only [spc, hcs, ↓reduceIte, advS_advS, List.drop_succ_cons]
              rw [Nat.add_comm 1]
              rfl
            · intro hg
              simp only [hm, spc, hcs, ↓reduceIte, List.length_cons]
              rcases hstop hg with h | h
              · left; omega
              · right; omega
        · right
          have hcs' : (c == ' ') = false := by simpa using hcs
          simp only [hcs', Bool.false_eq_true, ↓reduceIte, hm, spc, List.drop_zero]
          have : ({ u.inp with buf := c :: r } : In) = u.inp := by first | (rw [← hb]; done) | (rw [← hb]; exact hself)
          rw [this, advS_zero]
          exact ⟨rfl, fun _ => Or.inr (by simp)⟩
      · right
        have h0 : ind - u.mark.col = 0 := by omega
        simp only [hc, ↓reduceIte, h0, spc, List.drop_zero]
        have : ({ u.inp with buf := c :: r } : In) = u.inp := by first | (rw [← hb]; done) | (rw [← hb]; exact hself)
        rw [this, advS_zero]
        exact ⟨rfl, fun _ => by first | exact Or.inl rfl | simp⟩

-- the chunked loop -----------------------------------------------------------------------------------------

theorem big_step (ind f : Nat) (s : Sc) :
    skipBlockScalarIndentBig ind (f + 1) s =
      match Sc.lookahead s.inp.bufmaxlen s with
      | .ok (_, s1) =>
        (match skipBlockScalarIndentSpaces ind true (s1.inp.remaining + 2) s1 with
          | .ok (_, s2) =>
            if (s2.mark.col == ind) = true then .ok ((), s2)
            else if s2.inp.bufIsEmpty = true then skipBlockScalarIndentBig ind f s2
            else (match Sc.peek s2 with
              | .ok (c, s3) => if (c != ' ') = true then .ok ((), s3) else skipBlockScalarIndentBig ind f s3
              | .err e => .err e | .panic p => .panic p)
          | .err e => .err e | .panic p => .panic p)
      | .err e => .err e | .panic p => .panic p := by
  conv => lhs; unfold skipBlockScalarIndentBig
  simp only [Bind.bind, Sc.bufmaxlen, getS]
  rcases Sc.lookahead s.inp.bufmaxlen s with ⟨⟨_, s1⟩⟩ | _ | _
  · simp only
    rcases skipBlockScalarIndentSpaces ind true (s1.inp.remaining + 2) s1 with ⟨⟨_, s2⟩⟩ | _ | _
    · simp only
      cases h1 : (s2.mark.col == ind) <;> simp only [Bool.false_eq_true, ↓reduceIte]
      · cases h2 : s2.inp.bufIsEmpty <;> simp only [Bool.false_eq_true, ↓reduceIte]
        · rcases Sc.peek s2 with ⟨⟨c, s3⟩⟩ | _ | _
          · simp only
            cases h3 : (c != ' ') <;> simp only [Bool.false_eq_true, ↓reduceIte] <;> rfl
          · rfl
          · rfl
      · rfl
    · rfl
    · rfl
  · rfl
  · rfl

theorem lookahead_str_eval (n : Nat) (u : Sc) (hk : u.inp.kind = .str) :
    Sc.lookahead n u = .ok ((), { u with inp := { u.inp with la := max u.inp.la n } }) := by
  simp [Sc.lookahead, Sc.liftI, In.lookahead, hk]

/-- string input: the chunked loop skips the spaces up to the indentation (in one round) -/
theorem big_str (ind : Nat) : ∀ (fuel : Nat) (u : Sc), u.inp.kind = .str →
    (∃ p, skipBlockScalarIndentBig ind fuel u = .panic p) ∨
    ∃ la', skipBlockScalarIndentBig ind fuel u = .ok ((), advS u (spc (ind - u.mark.col) u.inp.iter)
      { u.inp with iter := u.inp.iter.drop (spc (ind - u.mark.col) u.inp.iter), la := la' }) := by
  intro fuel
  induction fuel with
  | zero => intro u _; left; exact ⟨_, rfl⟩
  | succ f ih =>
    intro u hk
    rw [big_step, lookahead_str_eval _ u hk]
    simp only
    by_cases hla : max u.inp.la u.inp.bufmaxlen = 0
    · -- nothing requested, ever: the inner loop stops at once; unless the indentation is reached the next round is the same
      have hk1 : ({ u with inp := { u.inp with la := max u.inp.la u.inp.bufmaxlen } } : Sc).inp.kind = .str := hk
      rw [show ({ u with inp := { u.inp with la := max u.inp.la u.inp.bufmaxlen } } : Sc).inp.remaining + 2
            = (({ u with inp := { u.inp with la := max u.inp.la u.inp.bufmaxlen } } : Sc).inp.remaining + 1) + 1 by omega,
          spaces_str_guard ind _ _ hk1 hla]
      simp only
      by_cases hcol : (u.mark.col == ind) = true
      · right
        have hc2 : u.mark.col = ind := by simpa using hcol
        have h0 : ind - u.mark.col = 0 := by omega
        refine ⟨max u.inp.la u.inp.bufmaxlen, ?_⟩
        simp only [hcol, ↓reduceIte, h0, spc, List.drop_zero]
        rfl
      · have hbe : ({ u.inp with la := max u.inp.la u.inp.bufmaxlen } : In).bufIsEmpty = true := by
          simp [In.bufIsEmpty, In.buflen, hk, hla]
        simp only [hcol, Bool.false_eq_true, ↓reduceIte, hbe]
        rcases ih _ hk1 with ⟨p, hp⟩ | ⟨la', hok⟩
        · left; exact ⟨p, hp⟩
        · right; exact ⟨la', by rw [hok]; rfl⟩
    · have hk1 : ({ u with inp := { u.inp with la := max u.inp.la u.inp.bufmaxlen } } : Sc).inp.kind = .str := hk
      rcases spaces_str ind true _ _ hk1 (Or.inr hla) with ⟨p, hp⟩ | hok
      · left; rw [hp]; exact ⟨p, rfl⟩
      · rw [hok]
        simp only
        have hcolk : (advS { u with inp := { u.inp with la := max u.inp.la u.inp.bufmaxlen } }
            (spc (ind - u.mark.col) u.inp.iter)
            { ({ u.inp with la := max u.inp.la u.inp.bufmaxlen } : In) with iter := u.inp.iter.drop (spc (ind - u.mark.col) u.inp.iter) }).mark.col
            = u.mark.col + spc (ind - u.mark.col) u.inp.iter := rfl
        by_cases hreach : u.mark.col + spc (ind - u.mark.col) u.inp.iter = ind
        · have : ((u.mark.col + spc (ind - u.mark.col) u.inp.iter) == ind) = true := by simp [hreach]
          simp only [hcolk, this, ↓reduceIte]
          exact Or.inr ⟨max u.inp.la u.inp.bufmaxlen, rfl⟩
        · have hne : ((u.mark.col + spc (ind - u.mark.col) u.inp.iter) == ind) = false := by simp [hreach]
          have hbe : (advS { u with inp := { u.inp with la := max u.inp.la u.inp.bufmaxlen } }
            (spc (ind - u.mark.col) u.inp.iter)
            { ({ u.inp with la := max u.inp.la u.inp.bufmaxlen } : In) with iter := u.inp.iter.drop (spc (ind - u.mark.col) u.inp.iter) }).inp.bufIsEmpty = false := by
            simp [advS, In.bufIsEmpty, In.buflen, hk, hla]
          simp only [hcolk, hne, Bool.false_eq_true, ↓reduceIte, hbe]
          rw [peek_str_eval _ (by exact hk)]
          simp only [advS_inp]
          by_cases hpk : ((u.inp.iter.drop (spc (ind - u.mark.col) u.inp.iter)).headD '\x00' != ' ') = true
          · simp only [hpk, ↓reduceIte]
            exact Or.inr ⟨max u.inp.la u.inp.bufmaxlen, rfl⟩
          · simp only [hpk, Bool.false_eq_true, ↓reduceIte]
            -- the next character is a space although the loop stopped: the position is already beyond the indentation
            have hnlt : ¬ spc (ind - u.mark.col) u.inp.iter < ind - u.mark.col := fun hlt =>
              hpk (by simpa using spc_stop_head _ _ hlt)
            have h0 : ind - u.mark.col = 0 := by have := spc_le (ind - u.mark.col) u.inp.iter; omega
            have hs0 : spc (ind - u.mark.col) u.inp.iter = 0 := by rw [h0]; rfl
            have hst : advS { u with inp := { u.inp with la := max u.inp.la u.inp.bufmaxlen } }
                (spc (ind - u.mark.col) u.inp.iter)
                { ({ u.inp with la := max u.inp.la u.inp.bufmaxlen } : In) with iter := u.inp.iter.drop (spc (ind - u.mark.col) u.inp.iter) }
                = { u with inp := { u.inp with la := max u.inp.la u.inp.bufmaxlen } } := by
              rw [hs0]; cases u; simp [advS]
            rw [hst]
            rcases ih _ hk1 with ⟨p, hp⟩ | ⟨la', hok⟩
            · exact Or.inl ⟨p, hp⟩
            · refine Or.inr ⟨la', ?_⟩
              rw [hok]
              rfl

-- the buffered side ------------------------------------------------------------------------------------------

/-- the text a buffered input will deliver -/
def txt (i : In) : Str := i.buf ++ i.iter

/-- a look-ahead request on a buffered input moves characters into the buffer (NULs past the end):
    the text stays the same -/
theorem lookahead_buf (n : Nat) (u : Sc) (hk : u.inp.kind = .buf) :
    (∃ p, Sc.lookahead n u = .panic p) ∨
    ∃ j', Sc.lookahead n u = .ok ((), { u with inp := j' }) ∧ j'.kind = .buf ∧ TxtEq (txt j') (txt u.inp) := by
  -- compare with a string input holding the same text (`lookahead_agree`)
  let i : In := { kind := .str, cap := 0, buf := [], iter := txt u.inp, la := 0 }
  have hsim : SimIn i u.inp := ⟨rfl, hk, fun _ => rfl⟩
  have ha := lookahead_agree n i u.inp hsim
  have hi : In.lookahead n i = .ok ((), { i with la := max i.la n }) := by simp [In.lookahead, i]
  rw [hi] at ha
  simp only [Sc.lookahead, Sc.liftI]
  cases hj : In.lookahead n u.inp with
  | panic p => left; exact ⟨p, rfl⟩
  | err e => rw [hj] at ha; simp [AgreeR] at ha
  | ok q =>
    obtain ⟨x, j'⟩ := q
    rw [hj] at ha
    simp only [AgreeR] at ha
    right
    exact ⟨j', rfl, ha.2.1.kj, fun m => (ha.2.1.same m).symm⟩

/-- buffered input: the chunked loop skips the spaces up to the indentation, refilling the buffer as
    often as needed -/
theorem big_buf (ind : Nat) : ∀ (fuel : Nat) (u : Sc), u.inp.kind = .buf →
    (∃ p, skipBlockScalarIndentBig ind fuel u = .panic p) ∨
    ∃ j', skipBlockScalarIndentBig ind fuel u = .ok ((), advS u (spc (ind - u.mark.col) (txt u.inp)) j') ∧
      j'.kind = .buf ∧ TxtEq (txt j') ((txt u.inp).drop (spc (ind - u.mark.col) (txt u.inp))) := by
  intro fuel
  induction fuel with
  | zero => intro u _; left; exact ⟨_, rfl⟩
  | succ f ih =>
    intro u hk
    rw [big_step]
    rcases lookahead_buf u.inp.bufmaxlen u hk with ⟨p, hp⟩ | ⟨j1, hl, hk1, ht1⟩
    · left; rw [hp]; exact ⟨p, rfl⟩
    · rw [hl]
      simp only
      have hku1 : ({ u with inp := j1 } : Sc).inp.kind = .buf := hk1
      rcases spaces_buf ind true _ { u with inp := j1 } hku1 with ⟨p, hp⟩ | ⟨hok, _⟩
      · left; rw [hp]; exact ⟨p, rfl⟩
      · rw [hok]
        simp only
        -- abbreviations
        have hcolu : ({ u with inp := j1 } : Sc).mark.col = u.mark.col := rfl
        have hbufu : ({ u with inp := j1 } : Sc).inp.buf = j1.buf := rfl
        rw [hcolu, hbufu]
        have hn := spc_txtEq (ind - u.mark.col) _ _ ht1       -- count on the refilled text = count on the text
        have hk1le := spc_le_len (ind - u.mark.col) j1.buf
        have hcolk : (advS { u with inp := j1 } (spc (ind - u.mark.col) j1.buf)
            { j1 with buf := j1.buf.drop (spc (ind - u.mark.col) j1.buf) }).mark.col
              = u.mark.col + spc (ind - u.mark.col) j1.buf := rfl
        have hstate : advS { u with inp := j1 } (spc (ind - u.mark.col) j1.buf)
            { j1 with buf := j1.buf.drop (spc (ind - u.mark.col) j1.buf) }
              = advS u (spc (ind - u.mark.col) j1.buf) { j1 with buf := j1.buf.drop (spc (ind - u.mark.col) j1.buf) } := rfl
        rw [hstate]
        by_cases hreach : u.mark.col + spc (ind - u.mark.col) j1.buf = ind
        · -- the indentation is reached
          have hb : ((advS u (spc (ind - u.mark.col) j1.buf) { j1 with buf := j1.buf.drop (spc (ind - u.mark.col) j1.buf) }).mark.col == ind) = true := by
            rw [advS_mark_col]; simp [hreach]
          simp only [hb, ↓reduceIte]
          right
          have hfull : spc (ind - u.mark.col) j1.buf = ind - u.mark.col := by omega
          have hcnt : spc (ind - u.mark.col) (txt u.inp) = spc (ind - u.mark.col) j1.buf := by
            rw [← hn]; exact spc_append_stop _ _ _ (Or.inl hfull)
          refine ⟨{ j1 with buf := j1.buf.drop (spc (ind - u.mark.col) j1.buf) }, by rw [hcnt], hk1, ?_⟩
          rw [hcnt]
          have : txt { j1 with buf := j1.buf.drop (spc (ind - u.mark.col) j1.buf) }
              = (txt j1).drop (spc (ind - u.mark.col) j1.buf) := by
            simp only [txt]; rw [List.drop_append_of_le_length hk1le]
          rw [this]
          exact ht1.drop _
        · have hb : ((advS u (spc (ind - u.mark.col) j1.buf) { j1 with buf := j1.buf.drop (spc (ind - u.mark.col) j1.buf) }).mark.col == ind) = false := by
            rw [advS_mark_col]; simp [hreach]
          simp only [hb, Bool.false_eq_true, ↓reduceIte]
          have hkk : (advS u (spc (ind - u.mark.col) j1.buf) { j1 with buf := j1.buf.drop (spc (ind - u.mark.col) j1.buf) }).inp.kind = .buf := hk1
          rw [bufIsEmpty_buf _ hkk]
          simp only [advS_inp]
          cases hd : j1.buf.drop (spc (ind - u.mark.col) j1.buf) with
          | nil =>
            -- the buffer is used up: another round on what the iterator still holds
            simp only [List.isEmpty_nil, ↓reduceIte]
            have hall : spc (ind - u.mark.col) j1.buf = j1.buf.length := by
              have := List.drop_eq_nil_iff.mp hd; omega
            rcases ih (advS u (spc (ind - u.mark.col) j1.buf) { j1 with buf := [] }) hk1 with ⟨p, hp⟩ | ⟨j2, hok2, hk2, ht2⟩
            · left; exact ⟨p, hp⟩
            · right
              have hcol2 : (advS u (spc (ind - u.mark.col) j1.buf) { j1 with buf := [] }).mark.col = u.mark.col + j1.buf.length := by
                rw [advS_mark_col, hall]
              have htx2 : txt (advS u (spc (ind - u.mark.col) j1.buf) { j1 with buf := [] }).inp = j1.iter := by
                simp [txt, advS]
              rw [hcol2, htx2] at hok2 ht2
              have hcnt : spc (ind - u.mark.col) (txt u.inp) = j1.buf.length + spc (ind - (u.mark.col + j1.buf.length)) j1.iter := by
                rw [← hn]
                have := spc_append_all (ind - u.mark.col) j1.buf j1.iter hall
                rw [show ind - u.mark.col - j1.buf.length = ind - (u.mark.col + j1.buf.length) by omega] at this
                exact this
              refine ⟨j2, ?_, hk2, ?_⟩
              · rw [hok2, advS_advS, hall, hcnt]
              · rw [hcnt]
                have : (txt u.inp).drop (j1.buf.length + spc (ind - (u.mark.col + j1.buf.length)) j1.iter)
                    = ((txt u.inp).drop j1.buf.length).drop (spc (ind - (u.mark.col + j1.buf.length)) j1.iter) := by
                  rw [List.drop_drop]
                rw [this]
                refine ht2.trans (TxtEq.drop ?_ _)
                have e : j1.iter = (txt j1).drop j1.buf.length := by simp [txt]
                rw [e]
                exact ht1.drop _
          | cons c r =>
            simp only [List.isEmpty_cons, Bool.false_eq_true, ↓reduceIte]
            have hlt : spc (ind - u.mark.col) j1.buf < j1.buf.length := by
              rcases Nat.lt_or_ge (spc (ind - u.mark.col) j1.buf) j1.buf.length with h | h
              · exact h
              · exfalso
                rw [List.drop_eq_nil_iff.mpr h] at hd
                cases hd
            have hkb : (advS u (spc (ind - u.mark.col) j1.buf) { j1 with buf := c :: r }).inp.kind = .buf := hk1
            rw [peek_buf_eval _ hkb c r rfl]
            simp only
            have hcnt : spc (ind - u.mark.col) (txt u.inp) = spc (ind - u.mark.col) j1.buf := by
              rw [← hn]; exact spc_append_stop _ _ _ (Or.inr hlt)
            by_cases hcs : (c != ' ') = true
            · simp only [hcs, ↓reduceIte]
              right
              refine ⟨{ j1 with buf := c :: r }, by rw [hcnt], hk1, ?_⟩
              rw [hcnt]
              have : txt { j1 with buf := c :: r } = (txt j1).drop (spc (ind - u.mark.col) j1.buf) := by
                simp only [txt]; rw [List.drop_append_of_le_length hk1le, hd]
              rw [this]
              exact ht1.drop _
            · -- a space although the loop stopped: only when the position is already beyond the indentation
              have hcs' : (c != ' ') = false := by simpa using hcs
              simp only [hcs', Bool.false_eq_true, ↓reduceIte]
              by_cases hle : u.mark.col ≤ ind
              · exfalso
                have hlt2 : spc (ind - u.mark.col) j1.buf < ind - u.mark.col := by
                  have := spc_le (ind - u.mark.col) j1.buf; omega
                have := spc_stop_head _ _ hlt2
                rw [hd] at this
                apply this
                simp only [List.headD_cons]
                simpa using hcs'
              · have h0 : ind - u.mark.col = 0 := by omega
                have hs0 : spc (ind - u.mark.col) j1.buf = 0 := by rw [h0]; rfl
                have hbuf : j1.buf = c :: r := by rw [hs0] at hd; simpa using hd
                rcases ih (advS u (spc (ind - u.mark.col) j1.buf) { j1 with buf := c :: r }) hk1 with ⟨p, hp⟩ | ⟨j2, hok2, hk2, ht2⟩
                · left; exact ⟨p, hp⟩
                · right
                  have hcol2 : (advS u (spc (ind - u.mark.col) j1.buf) { j1 with buf := c :: r }).mark.col = u.mark.col := by
                    rw [advS_mark_col, hs0]; rfl
                  have htx2 : txt (advS u (spc (ind - u.mark.col) j1.buf) { j1 with buf := c :: r }).inp = txt j1 := by
                    simp [txt, advS, hbuf]
                  have z : ∀ l : Str, spc 0 l = 0 := fun l => by cases l <;> rfl
                  refine ⟨j2, hok2.trans ?_, hk2, ?_⟩
                  · rw [hcol2, htx2, advS_advS, hs0, h0, z, z]
                  · rw [hcol2, htx2, h0, z] at ht2
                    rw [h0, z]
                    simp only [List.drop_zero] at ht2 ⊢
                    exact ht2.trans ht1

-- the spaces part of `skip_block_scalar_indent` ---------------------------------------------------------------

/-- the first half of one round of `skip_block_scalar_indent`: the spaces up to the indentation -/
def indentPart (ind : Nat) : S Unit :=
  Sc.bufmaxlen >>= fun cap => getS >>= fun s =>
    if ind + 2 < cap then (Sc.lookahead cap >>= fun _ => skipBlockScalarIndentSpaces ind false (s.inp.remaining + 2))
    else (skipBlockScalarIndentBig ind (s.inp.remaining + 2) >>= fun _ => Sc.lookahead 2)

theorem indent_unfold (ind f : Nat) (breaks : Str) :
    skipBlockScalarIndent ind (f + 1) breaks =
      indentPart ind >>= fun _ => Sc.liftI In.nextIsBreak >>= fun b =>
        if b = true then readBreak breaks >>= fun br => skipBlockScalarIndent ind f br else Pure.pure breaks := by
  conv => lhs; unfold skipBlockScalarIndent
  simp only [indentPart, M.bind_assoc]
  congr 1; funext cap
  congr 1; funext s
  by_cases h : ind + 2 < cap
  · simp only [h, ↓reduceIte, M.bind_assoc]
  · simp only [h, ↓reduceIte, M.bind_assoc]

theorem part_eq (ind : Nat) (u : Sc) :
    indentPart ind u =
      if ind + 2 < u.inp.bufmaxlen then
        (match Sc.lookahead u.inp.bufmaxlen u with
          | .ok (_, u1) => skipBlockScalarIndentSpaces ind false (u.inp.remaining + 2) u1
          | .err e => .err e | .panic p => .panic p)
      else
        (match skipBlockScalarIndentBig ind (u.inp.remaining + 2) u with
          | .ok (_, u1) => Sc.lookahead 2 u1
          | .err e => .err e | .panic p => .panic p) := by
  simp only [indentPart, Bind.bind, Sc.bufmaxlen, getS]
  by_cases h : ind + 2 < u.inp.bufmaxlen
  · simp only [h, ↓reduceIte]
    rcases Sc.lookahead u.inp.bufmaxlen u with ⟨⟨_, u1⟩⟩ | _ | _ <;> rfl
  · simp only [h, ↓reduceIte]
    rcases skipBlockScalarIndentBig ind (u.inp.remaining + 2) u with ⟨⟨_, u1⟩⟩ | _ | _ <;> rfl

/-- **string side**: whichever path is taken, the spaces up to the indentation are skipped -/
theorem part_str (ind : Nat) (u : Sc) (hk : u.inp.kind = .str) :
    (∃ p, indentPart ind u = .panic p) ∨
    ∃ la', indentPart ind u = .ok ((), advS u (spc (ind - u.mark.col) u.inp.iter)
      { u.inp with iter := u.inp.iter.drop (spc (ind - u.mark.col) u.inp.iter), la := la' }) := by
  rw [part_eq]
  by_cases h : ind + 2 < u.inp.bufmaxlen
  · simp only [h, ↓reduceIte, lookahead_str_eval _ u hk]
    have hk1 : ({ u with inp := { u.inp with la := max u.inp.la u.inp.bufmaxlen } } : Sc).inp.kind = .str := hk
    rcases spaces_str ind false (u.inp.remaining + 2) _ hk1 (Or.inl rfl) with ⟨p, hp⟩ | hok
    · left; exact ⟨p, hp⟩
    · right; exact ⟨max u.inp.la u.inp.bufmaxlen, by rw [hok]; rfl⟩
  · simp only [h, ↓reduceIte]
    rcases big_str ind (u.inp.remaining + 2) u hk with ⟨p, hp⟩ | ⟨la', hok⟩
    · left; rw [hp]; exact ⟨p, rfl⟩
    · right
      rw [hok]
      simp only
      refine ⟨max la' 2, ?_⟩
      rw [lookahead_str_eval _ _ (by exact hk)]
      rfl

/-- **buffered side**: whichever path is taken, the spaces up to the indentation are skipped and the text
    that follows is unchanged -/
theorem part_buf (ind : Nat) (u : Sc) (hk : u.inp.kind = .buf) :
    (∃ p, indentPart ind u = .panic p) ∨
    ∃ j', indentPart ind u = .ok ((), advS u (spc (ind - u.mark.col) (txt u.inp)) j') ∧
      j'.kind = .buf ∧ TxtEq (txt j') ((txt u.inp).drop (spc (ind - u.mark.col) (txt u.inp))) := by
  rw [part_eq]
  by_cases h : ind + 2 < u.inp.bufmaxlen
  · simp only [h, ↓reduceIte]
    rcases lookahead_buf u.inp.bufmaxlen u hk with ⟨p, hp⟩ | ⟨j1, hl, hk1, ht1⟩
    · left; rw [hp]; exact ⟨p, rfl⟩
    · rw [hl]
      simp only
      have hku1 : ({ u with inp := j1 } : Sc).inp.kind = .buf := hk1
      rcases spaces_buf ind false (u.inp.remaining + 2) { u with inp := j1 } hku1 with ⟨p, hp⟩ | ⟨hok, hstop⟩
      · left; exact ⟨p, hp⟩
      · right
        have hcolu : ({ u with inp := j1 } : Sc).mark.col = u.mark.col := rfl
        have hbufu : ({ u with inp := j1 } : Sc).inp.buf = j1.buf := rfl
        rw [hcolu, hbufu] at hok hstop
        have hcnt : spc (ind - u.mark.col) (txt u.inp) = spc (ind - u.mark.col) j1.buf := by
          rw [← spc_txtEq (ind - u.mark.col) _ _ ht1]
          exact spc_append_stop _ _ _ (hstop rfl)
        have hle := spc_le_len (ind - u.mark.col) j1.buf
        refine ⟨{ j1 with buf := j1.buf.drop (spc (ind - u.mark.col) j1.buf) }, ?_, hk1, ?_⟩
        · rw [hok, hcnt]; rfl
        · rw [hcnt]
          have : txt { j1 with buf := j1.buf.drop (spc (ind - u.mark.col) j1.buf) }
              = (txt j1).drop (spc (ind - u.mark.col) j1.buf) := by
            simp only [txt]; rw [List.drop_append_of_le_length hle]
          rw [this]
          exact ht1.drop _
  · simp only [h, ↓reduceIte]
    rcases big_buf ind (u.inp.remaining + 2) u hk with ⟨p, hp⟩ | ⟨j1, hok, hk1, ht1⟩
    · left; rw [hp]; exact ⟨p, rfl⟩
    · rw [hok]
      simp only
      have hka : (advS u (spc (ind - u.mark.col) (txt u.inp)) j1).inp.kind = .buf := hk1
      rcases lookahead_buf 2 (advS u (spc (ind - u.mark.col) (txt u.inp)) j1) hka with ⟨p, hp⟩ | ⟨j2, hl, hk2, ht2⟩
      · left; exact ⟨p, hp⟩
      · right
        refine ⟨j2, ?_, hk2, ?_⟩
        · rw [hl]; rfl
        · exact ht2.trans ht1

/-- the spaces part agrees across back-ends, whatever paths the two sides take -/
theorem part_rel (ind : Nat) : RelS (indentPart ind) (indentPart ind) := by
  constructor
  intro s t hst
  rcases part_str ind s hst.inp.ki with ⟨p, hp⟩ | ⟨la', hs⟩
  · rw [hp]; simp [OutS]
  · rcases part_buf ind t hst.inp.kj with ⟨p, hp⟩ | ⟨j', ht, hkj, htx⟩
    · rw [hp]; exact OutS.panicR _ _
    · rw [hs, ht]
      have hcol : t.mark.col = s.mark.col := by rw [hst.rest]
      have hsame : TxtEq s.inp.iter (txt t.inp) := hst.inp.same
      have hk : spc (ind - t.mark.col) (txt t.inp) = spc (ind - s.mark.col) s.inp.iter := by
        rw [hcol]; exact (spc_txtEq _ _ _ hsame).symm
      rw [hk] at htx ⊢
      refine ⟨rfl, ⟨⟨hst.inp.ki, hkj, ?_⟩, ?_⟩⟩
      · intro m
        show (s.inp.iter.drop (spc (ind - s.mark.col) s.inp.iter)).getD m '\x00' = (j'.buf ++ j'.iter).getD m '\x00'
        exact ((htx.trans (hsame.symm.drop _)) m).symm
      · conv => lhs; rw [hst.rest]
        rfl

/-- **`skip_block_scalar_indent` agrees across back-ends** whatever their `bufmaxlen`s -/
theorem indent_rel (ind : Nat) : ∀ (f1 f2 : Nat) (b : Str), RelS (skipBlockScalarIndent ind f1 b) (skipBlockScalarIndent ind f2 b) := by
  intro f1
  induction f1 with
  | zero => intro f2 b; unfold skipBlockScalarIndent; exact RelS.panicL _ _
  | succ n1 ih =>
    intro f2 b
    cases f2 with
    | zero => unfold skipBlockScalarIndent; exact RelS.panicR _ _
    | succ n2 =>
      rw [indent_unfold, indent_unfold]
      apply RelS.bind (part_rel ind); intro _
      apply RelS.bind (RelS.liftI nextIsBreak_agree); intro br
      apply RelS.ite
      · apply RelS.bind
        · unfold readBreak; rel
        · intro x; exact ih n2 x
      · exact RelS.pure _

end SaphyrModel.C10
