import SaphyrModel.Proofs.Rel.Final
import SaphyrModel.Proofs.Rel.Indent
/-! All three buffer-dependent fast paths of the scanner agree across back-ends: the hypothesis of
`scan_backends_agree` is discharged. -/
namespace SaphyrModel.C10
open SaphyrModel SaphyrModel.Sc

instance bespoke : Bespoke := ⟨fun ind f1 f2 b => indent_rel ind f1 f2 b⟩

/-- **The scanner is back-end independent.** For every text, every pair of buffer capacities and every pair of
    fuels, the string back-end and the buffered back-end deliver the same tokens — values and spans — and the
    same outcome (end of stream or the same error), unless one of the runs stops at a panic site. -/
theorem scan_backends_agree_all (text : Str) (cap cap' fuel fuel' : Nat) :
    let a := scanAll fuel (mkSc .str cap text) []
    let b := scanAll fuel' (mkSc .buf cap' text) []
    (∀ p, a.2.1 ≠ .panic p) → (∀ p, b.2.1 ≠ .panic p) → a.1 = b.1 ∧ a.2.1 = b.2.1 :=
  scan_backends_agree text cap cap' fuel fuel'

end SaphyrModel.C10
