import SaphyrModel.Proofs.BlockLitToken
import SaphyrModel.Sc.Scan3
/-! C04, single-quoted scalars on one line: `''` decodes to one quote, blanks inside are kept, every other
character is passed through — for every value without line breaks (string input). -/
set_option linter.unusedSimpArgs false
namespace SaphyrModel.C04S
open SaphyrModel SaphyrModel.Sc SaphyrModel.C10 SaphyrModel.C05 SaphyrModel.C14L SaphyrModel.C05T

/-- how a value is written between single quotes: every quote doubled -/
def sqChar (c : Char) : Str := if c == '\'' then ['\'', '\''] else [c]
def sqEnc (v : Str) : Str := v.flatMap sqChar

theorem ev_peekNth1 {u : Sc} {it : Str} {L C : Nat} {I : Int} {N : Nat} (h : At u it L C I N) :
    Ev (Sc.peekNth 1) u (it.getD 1 '\x00') (fun u' => At u' it L C I N) := by
  refine Ev.ok (u' := u) ?_ h
  simp [Sc.peekNth, Sc.liftI, In.peekNth, h.kind, h.iter]

theorem ev_skip2 {u : Sc} {c d : Char} {it : Str} {L C : Nat} {I : Int} {N : Nat} (h : At u (c :: d :: it) L C I N) :
    Ev (skipNNonBlank 2) u () (fun u' => At u' it L (C + 2) I N) := by
  apply Ev.ok (u' := { (advS u 2 { u.inp with iter := it }) with leadingWhitespace := false })
  · simp [skipNNonBlank, Sc.liftI, In.skipN, h.kind, h.iter, Bind.bind, advance, modS, advS]
  · refine ⟨h.kind, rfl, h.line, by show u.mark.col + 2 = C + 2; rw [h.col], h.indent, ?_⟩
    show u.mark.index + 2 + it.length = N
    have := h.off; simp only [List.length_cons] at this; omega

/-- a character of a word: not a blank, a break or NUL -/
def WordCh (c : Char) : Prop := isBlankOrBreakz c = false

/-- **A word between single quotes.** A run of characters that are not blanks, breaks or NUL, written with its
    quotes doubled, followed by a blank or break or by a quote that is not itself doubled: `consume_non_ws`
    appends exactly the run, each `''` as one quote, and stops in front of what follows. -/
theorem ev_word (sm : Marker) : ∀ (w : Str) (fuel : Nat) (str : Str) (lb : Bool) (x : Char) (rest : Str) (u : Sc) (L C : Nat) (I : Int) (N : Nat),
    (∀ c ∈ w, WordCh c) → (isBlankOrBreakz x = true ∨ (x = '\'' ∧ rest.headD '\x00' ≠ '\'')) →
    At u (sqEnc w ++ x :: rest) L C I N →
    Ev (consumeNonWs true sm fuel str lb) u (str ++ w, lb) (fun u' => At u' (x :: rest) L (C + (sqEnc w).length) I N) := by
  intro w
  induction w with
  | nil =>
    intro fuel str lb x rest u L C I N _ hx h
    cases fuel with
    | zero => left; exact ⟨_, rfl⟩
    | succ f =>
      simp only [sqEnc, List.flatMap_nil, List.nil_append, List.length_nil, Nat.add_zero, List.append_nil] at h ⊢
      unfold consumeNonWs
      apply Ev.bind (ev_peek h)
      intro u1 h1
      simp only [List.headD_cons]
      rcases hx with hx | ⟨rfl, hr⟩
      · simp only [hx, ↓reduceIte]
        exact Ev.pure _ u1 h1
      · simp only [show isBlankOrBreakz '\'' = false by decide, Bool.false_eq_true, ↓reduceIte,
          beq_self_eq_true, Bool.and_self]
        apply Ev.bind (ev_peekNth1 h1)
        intro u2 h2
        have : (rest.headD '\x00' == '\'') = false := by simpa using hr
        have hg : ('\'' :: rest).getD 1 '\x00' = rest.headD '\x00' := by cases rest <;> rfl
        simp only [hg, this, Bool.false_eq_true, ↓reduceIte]
        exact Ev.pure _ u2 h2
  | cons c w ih =>
    intro fuel str lb x rest u L C I N hw hx h
    cases fuel with
    | zero => left; exact ⟨_, rfl⟩
    | succ f =>
      have hc : isBlankOrBreakz c = false := hw c (by simp)
      have hw' : ∀ d ∈ w, WordCh d := fun d hd => hw d (by simp [hd])
      unfold consumeNonWs
      by_cases hq : c = '\''
      · subst hq
        have he : sqEnc ('\'' :: w) ++ x :: rest = '\'' :: '\'' :: (sqEnc w ++ x :: rest) := by
          simp [sqEnc, sqChar]
        rw [he] at h
        apply Ev.bind (ev_peek h)
        intro u1 h1
        simp only [List.headD_cons, show isBlankOrBreakz '\'' = false by decide, Bool.false_eq_true, ↓reduceIte,
          beq_self_eq_true, Bool.and_self]
        apply Ev.bind (ev_peekNth1 h1)
        intro u2 h2
        simp only [show ('\'' :: '\'' :: (sqEnc w ++ x :: rest)).getD 1 '\x00' = '\'' from rfl, beq_self_eq_true, ↓reduceIte]
        apply Ev.bind (ev_skip2 h2)
        intro u3 h3
        apply Ev.bind (ev_lookahead 2 h3)
        intro u4 h4
        have := ih f (str ++ ['\'']) lb x rest u4 L (C + 2) I N hw' hx h4
        have hl : (sqEnc ('\'' :: w)).length = 2 + (sqEnc w).length := by simp [sqEnc, sqChar]; omega
        rw [hl, show C + (2 + (sqEnc w).length) = C + 2 + (sqEnc w).length by omega]
        simpa [List.append_assoc] using this
      · have he : sqEnc (c :: w) ++ x :: rest = c :: (sqEnc w ++ x :: rest) := by
          simp [sqEnc, sqChar, hq]
        rw [he] at h
        apply Ev.bind (ev_peek h)
        intro u1 h1
        have hcq : (c == '\'') = false := by simpa using hq
        simp only [List.headD_cons, hc, Bool.false_eq_true, ↓reduceIte, hcq, Bool.false_and, Bool.not_true, Bool.and_false]
        apply Ev.bind (ev_skipNonBlank h1)
        intro u2 h2
        apply Ev.bind (ev_lookahead 2 h2)
        intro u3 h3
        have := ih f (str ++ [c]) lb x rest u3 L (C + 1) I N hw' hx h3
        have hl : (sqEnc (c :: w)).length = 1 + (sqEnc w).length := by simp [sqEnc, sqChar, hq]; omega
        rw [hl, show C + (1 + (sqEnc w).length) = C + 1 + (sqEnc w).length by omega]
        simpa [List.append_assoc] using this

/-- **A run of blanks** between single quotes (no line break so far) is collected as pending white space -/
theorem ev_blanks : ∀ (sp : Str) (fuel : Nat) (a : WsAcc) (y : Char) (rest : Str) (u : Sc) (L C : Nat) (I : Int) (N : Nat),
    (∀ c ∈ sp, isBlank c = true) → isBlank y = false → isBreak y = false →
    At u (sp ++ y :: rest) L C I N →
    Ev (consumeBlanks fuel a false) u ({ a with whitespaces := a.whitespaces ++ sp }, false)
      (fun u' => At u' (y :: rest) L (C + sp.length) I N) := by
  intro sp
  induction sp with
  | nil =>
    intro fuel a y rest u L C I N _ hy1 hy2 h
    cases fuel with
    | zero => left; exact ⟨_, rfl⟩
    | succ f =>
      unfold consumeBlanks
      simp only [List.nil_append] at h
      apply Ev.bind (ev_nextIs isBlank false h)
      intro u1 h1
      simp only [ans, hy1, Bool.false_eq_true, ↓reduceIte]
      apply Ev.bind (ev_nextIs isBreak false h1)
      intro u2 h2
      simp only [ans, hy2, Bool.false_eq_true, ↓reduceIte, List.append_nil, List.length_nil, Nat.add_zero]
      exact Ev.pure' u2 (by cases a; rfl) h2
  | cons c sp ih =>
    intro fuel a y rest u L C I N hsp hy1 hy2 h
    cases fuel with
    | zero => left; exact ⟨_, rfl⟩
    | succ f =>
      have hc : isBlank c = true := hsp c (by simp)
      unfold consumeBlanks
      simp only [List.cons_append] at h
      apply Ev.bind (ev_nextIs isBlank false h)
      intro u1 h1
      simp only [ans, hc, ↓reduceIte, Bool.false_eq_true]
      apply Ev.bind (ev_peek h1)
      intro u2 h2
      apply Ev.bind (ev_skipBlank h2)
      intro u3 h3
      apply Ev.bind (ev_lookahead 1 h3)
      intro u4 h4
      have := ih f { a with whitespaces := a.whitespaces ++ [c] } y rest u4 L (C + 1) I N
        (fun d hd => hsp d (by simp [hd])) hy1 hy2 h4
      simp only [List.length_cons, List.headD_cons]
      rw [show C + (sp.length + 1) = C + 1 + sp.length by omega]
      simpa [List.append_assoc] using this

theorem Ev.getS_bind {β : Type} {f : Sc → S β} {u : Sc} {b : β} {P : Sc → Prop} (h : Ev (f u) u b P) :
    Ev (getS >>= f) u b P := by
  rcases h with ⟨p, hp⟩ | ⟨u', hok, hP⟩
  · left; exact ⟨p, by rw [bind_ok' (show (getS : S Sc) u = .ok (u, u) from rfl)]; exact hp⟩
  · right; exact ⟨u', by rw [bind_ok' (show (getS : S Sc) u = .ok (u, u) from rfl)]; exact hok, hP⟩

theorem sqEnc_append (a b : Str) : sqEnc (a ++ b) = sqEnc a ++ sqEnc b := by simp [sqEnc]

theorem sqEnc_blanks : ∀ sp : Str, (∀ c ∈ sp, isBlank c = true) → sqEnc sp = sp := by
  intro sp
  induction sp with
  | nil => intro _; rfl
  | cons c t ih =>
    intro h
    have hc : isBlank c = true := h c (by simp)
    have hq : c ≠ '\'' := by intro e; rw [e] at hc; exact absurd hc (by decide)
    have : sqEnc (c :: t) = c :: sqEnc t := by simp [sqEnc, sqChar, hq]
    rw [this, ih (fun d hd => h d (by simp [hd]))]

/-- a value on one line: no line break and no NUL in it -/
def OneLine (v : Str) : Prop := ∀ c ∈ v, isBreak c = false ∧ isZ c = false

/-- what follows the blanks: the rest of the value (not starting with a blank), then the closing quote -/
theorem enc_head (v rest : Str) (hv : OneLine v) (hb : ∀ c t, v = c :: t → isBlank c = false) :
    ∃ y t, sqEnc v ++ '\'' :: rest = y :: t ∧ isBlank y = false ∧ isBreak y = false := by
  cases v with
  | nil => exact ⟨'\'', rest, rfl, by decide, by decide⟩
  | cons c t =>
    by_cases hq : c = '\''
    · subst hq; exact ⟨'\'', _, by simp [sqEnc, sqChar]; rfl, by decide, by decide⟩
    · exact ⟨c, sqEnc t ++ '\'' :: rest, by simp [sqEnc, sqChar, hq], hb c t rfl, (hv c (by simp)).1⟩

theorem dropWhile_head (p : Char → Bool) (r : Str) : ∀ c t, r.dropWhile p = c :: t → p c = false := by
  induction r with
  | nil => intro c t h; simp at h
  | cons a r ih =>
    intro c t h
    by_cases ha : p a = true
    · simp only [List.dropWhile_cons, ha, ↓reduceIte] at h; exact ih c t h
    · simp only [List.dropWhile_cons, ha, Bool.false_eq_true, ↓reduceIte] at h
      cases h; simpa using ha

theorem dropWhile_blank_head (r : Str) : ∀ c t, r.dropWhile isBlank = c :: t → isBlank c = false :=
  dropWhile_head isBlank r

theorem takeWhile_all (p : Char → Bool) (r : Str) : ∀ c ∈ r.takeWhile p, p c = true ∧ c ∈ r := by
  induction r with
  | nil => intro c hc; simp at hc
  | cons a r ih =>
    intro c hc
    by_cases ha : p a = true
    · simp only [List.takeWhile_cons, ha, ↓reduceIte, List.mem_cons] at hc
      rcases hc with rfl | hc
      · exact ⟨ha, by simp⟩
      · exact ⟨(ih c hc).1, by simp [(ih c hc).2]⟩
    · simp [List.takeWhile_cons, ha] at hc

/-- **The body of a single-quoted scalar on one line.** In front of the value written with doubled quotes, the
    closing quote (not followed by another quote) and anything, the loop of `scan_flow_scalar` returns exactly
    the value — `''` as one quote, blanks kept, everything else unchanged — and stops at the closing quote. -/
theorem ev_sqLoop (sm : Marker) : ∀ (n : Nat) (v : Str), v.length ≤ n → ∀ (fuel : Nat) (str rest : Str) (u : Sc) (L C : Nat) (I : Int) (N : Nat),
    OneLine v → rest.headD '\x00' ≠ '\'' → C ≠ 0 → I ≤ (C : Int) →
    At u (sqEnc v ++ '\'' :: rest) L C I N →
    Ev (flowScalarLoop true sm fuel str ⟨[], [], []⟩) u (str ++ v)
      (fun u' => At u' ('\'' :: rest) L (C + (sqEnc v).length) I N) := by
  intro n
  induction n with
  | zero =>
    intro v hn fuel str rest u L C I N hv hr hC hI h
    have : v = [] := List.eq_nil_of_length_eq_zero (by omega)
    subst this
    cases fuel with
    | zero => left; exact ⟨_, rfl⟩
    | succ f =>
      unfold flowScalarLoop
      apply Ev.bind (ev_lookahead 4 h)
      intro u1 h1
      apply Ev.getS_bind
      have hcol : (u1.mark.col == 0) = false := by rw [h1.col]; simpa using hC
      simp only [hcol, Bool.false_eq_true, ↓reduceIte]
      apply Ev.bind (Ev.pure false u1 (P := fun u' => At u' (sqEnc [] ++ '\'' :: rest) L C I N) h1)
      intro u2 h2
      simp only [Bool.false_eq_true, ↓reduceIte]
      apply Ev.bind (ev_nextIs isZ true h2)
      intro u3 h3
      have hz : ans isZ true (sqEnc [] ++ '\'' :: rest) = false := by simp [sqEnc, ans]; decide
      have hlt : ¬ ((u1.mark.col : Int) < u1.indent) := by rw [h1.col, h1.indent]; omega
      simp only [hz, Bool.false_eq_true, ↓reduceIte, hlt]
      apply Ev.bind (ev_lookahead 2 h3)
      intro u4 h4
      apply Ev.bind (ev_word sm [] _ str false '\'' rest u4 L C I N (by simp) (Or.inr ⟨rfl, hr⟩) h4)
      intro u5 h5
      apply Ev.bind (ev_lookCh h5)
      intro u6 h6
      simp only [List.headD_cons, beq_self_eq_true, Bool.and_self, Bool.true_or, ↓reduceIte, List.append_nil]
      exact Ev.pure _ u6 h6
  | succ n ih =>
    intro v hn fuel str rest u L C I N hv hr hC hI h
    cases fuel with
    | zero => left; exact ⟨_, rfl⟩
    | succ f =>
      -- split the value: a word, then (if anything is left) blanks and the rest
      have hsplit : v = v.takeWhile (fun c => !isBlank c) ++ v.dropWhile (fun c => !isBlank c) :=
        (List.takeWhile_append_dropWhile).symm
      generalize hw : v.takeWhile (fun c => !isBlank c) = w at hsplit
      generalize hr1 : v.dropWhile (fun c => !isBlank c) = r1 at hsplit
      have hww : ∀ c ∈ w, WordCh c := by
        intro c hc
        rw [← hw] at hc
        have h1 : (!isBlank c) = true := (takeWhile_all _ v c hc).1
        have h2 := hv c (takeWhile_all _ v c hc).2
        simp only [WordCh, isBlankOrBreakz, isBreakz, h2.1, h2.2, Bool.or_false]
        simpa using h1
      unfold flowScalarLoop
      apply Ev.bind (ev_lookahead 4 h)
      intro u1 h1
      apply Ev.getS_bind
      have hcol : (u1.mark.col == 0) = false := by rw [h1.col]; simpa using hC
      simp only [hcol, Bool.false_eq_true, ↓reduceIte]
      apply Ev.bind (Ev.pure false u1 (P := fun u' => At u' (sqEnc v ++ '\'' :: rest) L C I N) h1)
      intro u2 h2
      simp only [Bool.false_eq_true, ↓reduceIte]
      apply Ev.bind (ev_nextIs isZ true h2)
      intro u3 h3
      obtain ⟨y0, t0, hy0, _, hy0b⟩ : ∃ y t, sqEnc v ++ '\'' :: rest = y :: t ∧ True ∧ isZ y = false := by
        cases v with
        | nil => exact ⟨'\'', rest, rfl, trivial, by decide⟩
        | cons c t =>
          by_cases hq : c = '\''
          · subst hq; exact ⟨'\'', _, by simp [sqEnc, sqChar]; rfl, trivial, by decide⟩
          · exact ⟨c, sqEnc t ++ '\'' :: rest, by simp [sqEnc, sqChar, hq], trivial, (hv c (by simp)).2⟩
      have hz : ans isZ true (sqEnc v ++ '\'' :: rest) = false := by rw [hy0]; simpa [ans] using hy0b
      have hlt : ¬ ((u1.mark.col : Int) < u1.indent) := by rw [h1.col, h1.indent]; omega
      simp only [hz, Bool.false_eq_true, ↓reduceIte, hlt]
      apply Ev.bind (ev_lookahead 2 h3)
      intro u4 h4
      cases r1 with
      | nil =>
        -- the value is one word: the closing quote follows
        have hvw : v = w := by rw [hsplit]; simp
        subst hvw
        apply Ev.bind (ev_word sm v _ str false '\'' rest u4 L C I N hww (Or.inr ⟨rfl, hr⟩) h4)
        intro u5 h5
        apply Ev.bind (ev_lookCh h5)
        intro u6 h6
        simp only [List.headD_cons, beq_self_eq_true, Bool.and_self, Bool.true_or, ↓reduceIte]
        exact Ev.pure _ u6 h6
      | cons b r1' =>
        have hbb : isBlank b = true := by
          have := dropWhile_head (fun c => !isBlank c) v b r1' hr1
          simpa using this
        generalize hsp : (b :: r1').takeWhile isBlank = sp
        generalize hv' : (b :: r1').dropWhile isBlank = v'
        have hr1s : b :: r1' = sp ++ v' := by rw [← hsp, ← hv']; exact (List.takeWhile_append_dropWhile).symm
        have hspb : ∀ c ∈ sp, isBlank c = true := by rw [← hsp]; exact fun c hc => (takeWhile_all _ _ c hc).1
        obtain ⟨sp', hsp'⟩ : ∃ sp', sp = b :: sp' := by
          rw [← hsp]; simp [List.takeWhile_cons, hbb]
        have hv'1 : OneLine v' := by
          intro c hc
          apply hv c
          rw [hsplit, hr1s]
          simp [hc]
        have hv'b : ∀ c t, v' = c :: t → isBlank c = false := by
          rw [← hv']; exact dropWhile_blank_head _
        have hlen : v'.length ≤ n := by
          have : v.length = w.length + (sp.length + v'.length) := by
            rw [hsplit, hr1s]; simp
          have : sp.length ≥ 1 := by rw [hsp']; simp
          omega
        have henc : sqEnc v ++ '\'' :: rest = sqEnc w ++ b :: (sp' ++ (sqEnc v' ++ '\'' :: rest)) := by
          rw [hsplit, hr1s, sqEnc_append, sqEnc_append, sqEnc_blanks sp hspb, hsp']
          simp [List.append_assoc]
        rw [henc] at h4
        have hbz : isBlankOrBreakz b = true := by simp [isBlankOrBreakz, hbb]
        apply Ev.bind (ev_word sm w _ str false b _ u4 L C I N hww (Or.inl hbz) h4)
        intro u5 h5
        apply Ev.bind (ev_lookCh h5)
        intro u6 h6
        have hbq : (b == '\'') = false := by
          have : b ≠ '\'' := by intro e; rw [e] at hbb; exact absurd hbb (by decide)
          simpa using this
        simp only [List.headD_cons, hbq, Bool.false_and, Bool.not_true, Bool.and_false, Bool.or_self, Bool.false_eq_true, ↓reduceIte]
        apply Ev.getS_bind
        obtain ⟨y, t, hyt, hy1, hy2⟩ := enc_head v' rest hv'1 hv'b
        have h6' : At u6 (sp ++ y :: t) L (C + (sqEnc w).length) I N := by
          rw [hsp', ← hyt]; exact h6
        apply Ev.bind (ev_blanks sp _ ⟨[], [], []⟩ y t u6 L _ I N hspb hy1 hy2 h6')
        intro u7 h7
        simp only [Bool.false_eq_true, ↓reduceIte, List.nil_append]
        rw [hyt.symm] at h7
        have hC' : C + (sqEnc w).length + sp.length ≠ 0 := by omega
        have hI' : I ≤ ((C + (sqEnc w).length + sp.length : Nat) : Int) := by omega
        have := ih v' hlen f (str ++ w ++ sp) rest u7 L _ I N hv'1 hr hC' hI' h7
        have hfin : str ++ v = str ++ w ++ sp ++ v' := by rw [hsplit, hr1s]; simp [List.append_assoc]
        have hl : (sqEnc v).length = (sqEnc w).length + sp.length + (sqEnc v').length := by
          rw [hsplit, hr1s, sqEnc_append, sqEnc_append, sqEnc_blanks sp hspb]; simp [List.length_append]; omega
        rw [hfin, hl, show C + ((sqEnc w).length + sp.length + (sqEnc v').length) = C + (sqEnc w).length + sp.length + (sqEnc v').length by omega]
        exact this

theorem EvR.getMark_bind {β : Type} {f : Marker → S β} {u : Sc} {R : β → Sc → Prop} (h : EvR (f u.mark) u R) :
    EvR (getMark >>= f) u R := by
  rcases h with ⟨p, hp⟩ | ⟨b, u', hok, hR⟩
  · left; exact ⟨p, by rw [bind_ok' (show getMark u = .ok (u.mark, u) from rfl)]; exact hp⟩
  · right; exact ⟨b, u', by rw [bind_ok' (show getMark u = .ok (u.mark, u) from rfl)]; exact hok, hR⟩

/-- `skip_ws_to_eol` in front of the end of the line (or of the input): nothing to skip -/
theorem ev_skipWsToEol_z (rest : Str) (hz : isBreakz (rest.headD '\x00') = true) (u : Sc) (L C : Nat) (I : Int) (N : Nat)
    (h : At u rest L C I N) :
    Ev (Sc.skipWsToEol .yes) u (.result false false) (fun u' => At u' rest L C I N) := by
  apply Ev.ok (u' := { u with inp := { u.inp with iter := rest }, mark := ⟨u.mark.index + 0, u.mark.line, u.mark.col + 0⟩ })
  · cases rest with
    | nil =>
      simp [Sc.skipWsToEol, Sc.liftI, In.skipWsToEol, h.kind, h.iter, In.strSkipBlanks, Bind.bind, advance, modS, Pure.pure, getMark]
    | cons c t =>
      have hc : c = '\n' ∨ c = '\r' ∨ c = '\x00' := by
        simp only [List.headD_cons, isBreakz, isBreak, isZ, Bool.or_eq_true, beq_iff_eq] at hz
        rcases hz with (h | h) | h
        · exact Or.inl h
        · exact Or.inr (Or.inl h)
        · exact Or.inr (Or.inr h)
      rcases hc with rfl | rfl | rfl <;>
        simp [Sc.skipWsToEol, Sc.liftI, In.skipWsToEol, h.kind, h.iter, In.strSkipBlanks, Bind.bind, advance, modS, Pure.pure, getMark]
  · exact ⟨h.kind, rfl, h.line, h.col, h.indent, h.off⟩

/-- **A whole single-quoted scalar on one line.** The scanner stands at the opening quote; what follows is any
    value without line breaks or NUL written with its quotes doubled, the closing quote, and the end of the line
    (or of the input). The token returned is a single-quoted scalar whose text is exactly that value: `''`
    decoded to one quote, interior blanks kept, every other character — indicators, non-ASCII — unchanged. Its
    span starts at the opening quote and ends just after the closing quote. -/
theorem single_quoted_token (v rest : Str) (hv : OneLine v) (hz : isBreakz (rest.headD '\x00') = true)
    (u : Sc) (L C : Nat) (I : Int) (N : Nat) (hI : I ≤ (C : Int) + 1)
    (h : At u ('\'' :: (sqEnc v ++ '\'' :: rest)) L C I N) :
    EvR (scanFlowScalar true) u (fun tok u' =>
      tok.ty = .scalar .singleQuoted v ∧ tok.span.start = u.mark ∧ tok.span.stop = u'.mark ∧
      At u' rest L (C + 1 + (sqEnc v).length + 1) I N) := by
  have hr : rest.headD '\x00' ≠ '\'' := by
    intro e; rw [e] at hz; exact absurd hz (by decide)
  unfold scanFlowScalar
  apply EvR.getMark_bind
  apply EvR.bindEv (ev_skipNonBlank h)
  intro u1 h1
  apply EvR.getS_bind
  apply EvR.bindEv (ev_sqLoop u.mark v.length v (Nat.le_refl _) _ [] rest u1 L (C + 1) I N hv hr (by omega) (by omega) h1)
  intro u2 h2
  apply EvR.bindEv (ev_skipNonBlank h2)
  intro u3 h3
  apply EvR.bindEv (ev_skipWsToEol_z rest hz u3 L _ I N h3)
  intro u4 h4
  apply EvR.bindEv (ev_peek h4)
  intro u5 h5
  apply EvR.getS_bind
  simp only [hz, Bool.or_true, Bool.true_or, Bool.not_true, Bool.false_eq_true, ↓reduceIte, List.nil_append]
  right
  exact ⟨_, u5, rfl, rfl, rfl, rfl, h5⟩

end SaphyrModel.C04S
