import SaphyrModel.Sc.Scan3
import SaphyrModel.Api
import SaphyrModel.Load
import SaphyrModel.Emitter
/-! Line-protocol codec shared by the driver: hex transport, printers and parsers for tokens,
events and node trees. Pure glue; no model logic. -/
namespace SaphyrModel.Driver
open SaphyrModel SaphyrModel.Sc ProtoR

def hexVal (c : Char) : Nat :=
  if c.isDigit then c.toNat - '0'.toNat else if 'a' ≤ c ∧ c ≤ 'f' then c.toNat - 'a'.toNat + 10 else 0

def decodeHexL : List Char → List Char
  | a :: b :: c :: d :: e :: f :: rest =>
    Char.ofNat (((((hexVal a * 16 + hexVal b) * 16 + hexVal c) * 16 + hexVal d) * 16 + hexVal e) * 16 + hexVal f)
      :: decodeHexL rest
  | _ => []
def decodeHex (s : String) : List Char := decodeHexL s.toList

def hexDigitC (n : Nat) : Char := if n < 10 then Char.ofNat (48 + n) else Char.ofNat (87 + n)
def encodeHex (s : List Char) : String :=
  String.ofList (s.flatMap fun c =>
    let v := c.toNat
    [hexDigitC (v / 1048576 % 16), hexDigitC (v / 65536 % 16), hexDigitC (v / 4096 % 16),
     hexDigitC (v / 256 % 16), hexDigitC (v / 16 % 16), hexDigitC (v % 16)])

def showMark (m : Marker) : String := s!"{m.index},{m.line},{m.col}"
def showSpan (s : Span) : String := s!"{showMark s.start}-{showMark s.stop}"
def showStyle : ScalarStyle → String
  | .plain => "P" | .singleQuoted => "S" | .doubleQuoted => "D" | .literal => "L" | .folded => "F"
def readStyle : String → ScalarStyle
  | "P" => .plain | "S" => .singleQuoted | "D" => .doubleQuoted | "L" => .literal | _ => .folded
def showTag : Option Tag → String
  | none => "-" | some t => s!"{encodeHex t.handle}!{encodeHex t.suffix}"
def readTag (s : String) : Option Tag :=
  if s == "-" then none else
  match s.splitOn "!" with
  | [h, x] => some ⟨decodeHex h, decodeHex x⟩
  | _ => none

def readMark (s : String) : Marker :=
  match s.splitOn "," with
  | [a, b, c] => ⟨a.toNat!, b.toNat!, c.toNat!⟩
  | _ => ⟨0, 0, 0⟩
def readSpan (s : String) : Span :=
  match s.splitOn "-" with
  | [a, b] => ⟨readMark a, readMark b⟩
  | _ => Span.dflt

def showTokTy : TokenType → String
  | .streamStart => "SS" | .streamEnd => "SE"
  | .versionDirective a b => s!"VD:{a}.{b}"
  | .tagDirective h p => s!"TD:{encodeHex h}:{encodeHex p}"
  | .documentStart => "DS" | .documentEnd => "DE"
  | .blockSequenceStart => "BSS" | .blockMappingStart => "BMS" | .blockEnd => "BE"
  | .flowSequenceStart => "FSS" | .flowSequenceEnd => "FSE"
  | .flowMappingStart => "FMS" | .flowMappingEnd => "FME"
  | .blockEntry => "BEN" | .flowEntry => "FEN" | .key => "K" | .value => "V"
  | .alias n => s!"AL:{encodeHex n}" | .anchor n => s!"AN:{encodeHex n}"
  | .tag h s => s!"TG:{encodeHex h}:{encodeHex s}"
  | .scalar st v => s!"SC:{showStyle st}:{encodeHex v}"
def showTok (t : Token) : String := s!"{showTokTy t.ty}@{showSpan t.span}"

def readTokTy (s : String) : Option TokenType :=
  match s.splitOn ":" with
  | ["SS"] => some .streamStart | ["SE"] => some .streamEnd
  | ["VD", v] => match v.splitOn "." with
    | [a, b] => some (.versionDirective a.toNat! b.toNat!)
    | _ => none
  | ["TD", h, p] => some (.tagDirective (decodeHex h) (decodeHex p))
  | ["DS"] => some .documentStart | ["DE"] => some .documentEnd
  | ["BSS"] => some .blockSequenceStart | ["BMS"] => some .blockMappingStart | ["BE"] => some .blockEnd
  | ["FSS"] => some .flowSequenceStart | ["FSE"] => some .flowSequenceEnd
  | ["FMS"] => some .flowMappingStart | ["FME"] => some .flowMappingEnd
  | ["BEN"] => some .blockEntry | ["FEN"] => some .flowEntry | ["K"] => some .key | ["V"] => some .value
  | ["AL", n] => some (.alias (decodeHex n)) | ["AN", n] => some (.anchor (decodeHex n))
  | ["TG", h, x] => some (.tag (decodeHex h) (decodeHex x))
  | ["SC", st, v] => some (.scalar (readStyle st) (decodeHex v))
  | _ => none
def readTok (s : String) : Option Token :=
  match s.splitOn "@" with
  | [t, sp] => (readTokTy t).map fun ty => ⟨readSpan sp, ty⟩
  | _ => none

def showEvK : Event → String
  | .streamStart => "SS" | .streamEnd => "SE" | .documentStart b => s!"DS:{b}" | .documentEnd => "DE"
  | .alias i => s!"AL:{i}" | .scalar v st a t => s!"SC:{showStyle st}:{a}:{showTag t}:{encodeHex v}"
  | .sequenceStart a t => s!"SQ:{a}:{showTag t}" | .sequenceEnd => "SQE"
  | .mappingStart a t => s!"MP:{a}:{showTag t}" | .mappingEnd => "MPE"
def showEv (e : Event) (sp : Span) : String := s!"{showEvK e}@{showSpan sp}"

def readEvK (s : String) : Option Event :=
  match s.splitOn ":" with
  | ["SS"] => some .streamStart | ["SE"] => some .streamEnd
  | ["DS", b] => some (.documentStart (b == "true")) | ["DE"] => some .documentEnd
  | ["AL", i] => some (.alias i.toNat!)
  | ["SC", st, a, t, v] => some (.scalar (decodeHex v) (readStyle st) a.toNat! (readTag t))
  | ["SQ", a, t] => some (.sequenceStart a.toNat! (readTag t)) | ["SQE"] => some .sequenceEnd
  | ["MP", a, t] => some (.mappingStart a.toNat! (readTag t)) | ["MPE"] => some .mappingEnd
  | _ => none
def readEv (s : String) : Option (Event × Span) :=
  match s.splitOn "@" with
  | [t, sp] => (readEvK t).map fun e => (e, readSpan sp)
  | _ => none

def showErr (e : ScanError) : String := s!"ERR {showMark e.mark} {encodeHex e.info.toList}"

-- node trees --------------------------------------------------------------------------------------

def showFloat : FloatDen → String
  | .inf n => if n then "-inf" else "inf"
  | .nan => "nan"
  | .fin n m e => s!"{if n then "-" else ""}{m}e{e}"

def showScalar : Scalar → String
  | .null => "N" | .bool true => "T" | .bool false => "F" | .int i => s!"I:{i}"
  | .float f => s!"D:{showFloat f}" | .string s => s!"S:{encodeHex s}"

mutual
def showNode (marked : Bool) : Node → List String
  | .repr sp v st t => [s!"R:{showStyle st}:{showTag t}:{encodeHex v}" ++ sfx marked sp]
  | .value sp s => [showScalar s ++ sfx marked sp]
  | .seq sp xs => (s!"Q:{xs.length}" ++ sfx marked sp) :: showNodes marked xs
  | .map sp ps => (s!"M:{ps.length}" ++ sfx marked sp) :: showPairs marked ps
  | .alias sp n => [s!"A:{n}" ++ sfx marked sp]
  | .bad sp => ["B" ++ sfx marked sp]
def showNodes (marked : Bool) : List Node → List String
  | [] => []
  | x :: xs => showNode marked x ++ showNodes marked xs
def showPairs (marked : Bool) : List (Node × Node) → List String
  | [] => []
  | (k, v) :: ps => showNode marked k ++ showNode marked v ++ showPairs marked ps
def sfx (marked : Bool) (sp : Span) : String := if marked then "@" ++ showSpan sp else ""
end

end SaphyrModel.Driver
