import SaphyrModel.Grammar
namespace SaphyrModel

@[simp] theorem skipTok_state (p : PState) : (skipTok p).state = p.state := rfl
@[simp] theorem skipTok_states (p : PState) : (skipTok p).states = p.states := rfl
@[simp] theorem pushState_state (p : PState) (s) : (pushState p s).state = p.state := rfl
@[simp] theorem pushState_states (p : PState) (s) : (pushState p s).states = s :: p.states := rfl
@[simp] theorem registerAnchor_state (p : PState) (n) : (registerAnchor p n).2.state = p.state := rfl
@[simp] theorem registerAnchor_states (p : PState) (n) : (registerAnchor p n).2.states = p.states := rfl

theorem absStack_cons {k : State} {r : List State} {s : List Ctx} (h : absStack (k :: r) = some s) :
    (k = .documentEnd ∧ r = [] ∧ s = [.doc true]) ∨
    (∃ a b, cur k = some a ∧ absStack r = some b ∧ s = a ++ b) := by
  unfold absStack at h
  split at h
  · rename_i hc; left; exact ⟨hc.1, hc.2, by simpa using h.symm⟩
  · right
    split at h
    · rename_i a b ha hb; exact ⟨a, b, ha, hb, by simpa using h.symm⟩
    · simp at h

/-- Popping the continuation after a complete node lands in a state related to the advanced stack. -/
theorem popState_R {p : PState} {s : List Ctx} (h : absStack p.states = some s) :
    ∃ p', popState p = .ok p' ∧ R p' ⟨1, s⟩ ∧ p'.toks = p.toks ∧ p'.anchorId = p.anchorId := by
  unfold popState
  cases hs : p.states with
  | nil => rw [hs] at h; simp [absStack] at h
  | cons k r =>
    rw [hs] at h
    refine ⟨_, rfl, ?_, rfl, rfl⟩
    rcases absStack_cons h with ⟨hk, hr, hs'⟩ | ⟨a, b, ha, hb, hs'⟩
    · subst hk hr hs'; simp [R, R']
    · subst hs'
      simp only [R]
      cases k <;> simp [cur] at ha <;> subst ha <;> simp [R', cur, hb]

end SaphyrModel

namespace SaphyrModel

/-- Outcome of one parser step is consistent with the grammar automaton; no panic. -/
def Good (g : G) (r : Res Out) : Prop :=
  match r with
  | .ok (ev, _, p') => ∃ g', gStep g ev = some g' ∧ R p' g'
  | .err _ => True
  | .panic _ => False

@[simp] theorem Good_err (g : G) (e) : Good g (.err e) := trivial

theorem Good_bind_peek {g : G} {p : PState} {f : Token → Res Out}
    (h : ∀ t, peekTok p = .ok t → Good g (f t)) : Good g (peekTok p >>= f) := by
  cases hp : peekTok p with
  | ok t => simpa [Bind.bind] using h t hp
  | err e => simp [Bind.bind]
  | panic x => unfold peekTok at hp; split at hp <;> simp at hp

theorem pop_scalar_good {p : PState} {gs s : List Ctx} (hs : absStack p.states = some s)
    (hg : nodeAdv gs = some s) (v st aid tag sp) (f : PState → PState)
    (hf1 : ∀ q, (f q).state = q.state) (hf2 : ∀ q, (f q).states = q.states) :
    Good ⟨1, gs⟩ (match popState p with
      | .ok p => .ok (.scalar v st aid tag, sp, f p)
      | .err e => .err e | .panic x => .panic x) := by
  obtain ⟨p', hp, hR, _⟩ := popState_R hs
  simp [hp, Good, gStep, hg]
  simpa [R, hf1, hf2] using hR

theorem parseNodeContent_good {p : PState} {gs s : List Ctx} (b i : Bool) (aid : Nat) (tag : Option Tag)
    (hs : absStack p.states = some s) (hg : nodeAdv gs = some s) :
    Good ⟨1, gs⟩ (parseNodeContent p b i aid tag) := by
  unfold parseNodeContent
  cases hp : peekTok p with
  | err e => simp
  | panic x => unfold peekTok at hp; split at hp <;> simp at hp
  | ok t =>
    simp only
    have hpop := fun v st sp f hf1 hf2 => pop_scalar_good (p := p) hs hg v st aid tag sp f hf1 hf2
    have hpop0 := fun sp => hpop [] .plain sp id (fun _ => rfl) (fun _ => rfl)
    repeat' (first
      | exact Good_err _ _
      | exact hpop0 _
      | exact hpop _ _ _ skipTok (fun _ => rfl) (fun _ => rfl)
      | (simp [Good, gStep, hg, R, R', cur, hs]; done)
      | split)

end SaphyrModel

namespace SaphyrModel

theorem parseNode_good {p : PState} {gs s : List Ctx} (b i : Bool)
    (hs : absStack p.states = some s) (hg : nodeAdv gs = some s) :
    Good ⟨1, gs⟩ (parseNode p b i) := by
  unfold parseNode
  cases hp : peekTok p with
  | err e => simp
  | panic x => unfold peekTok at hp; split at hp <;> simp at hp
  | ok t =>
    simp only
    have hc : ∀ (q : PState) aid tag, q.states = p.states → Good ⟨1, gs⟩ (parseNodeContent q b i aid tag) :=
      fun q aid tag hq => parseNodeContent_good b i aid tag (hq ▸ hs) hg
    split
    · -- alias
      obtain ⟨p', hpop, hR, _⟩ := popState_R hs
      simp only [hpop]
      split
      · simp
      · simp [Good, gStep, hg]; simpa [R] using hR
    · -- anchor
      skip
      split
      · simp
      · rename_i x hx; unfold peekTok at hx; split at hx <;> simp at hx
      · split
        · split
          · simp
          · rename_i x hx; unfold resolveTag at hx; (repeat' split at hx) <;> simp at hx
          · exact hc _ _ _ rfl
        · exact hc _ _ _ rfl
    · -- tag
      skip
      split
      · simp
      · rename_i x hx; unfold resolveTag at hx; (repeat' split at hx) <;> simp at hx
      · split
        · simp
        · rename_i x hx; unfold peekTok at hx; split at hx <;> simp at hx
        · split
          · exact hc _ _ _ rfl
          · exact hc _ _ _ rfl
    · exact hc _ _ _ rfl

end SaphyrModel

namespace SaphyrModel

theorem Good_bind {α} {g : G} {m : Res α} {f : α → Res Out}
    (hnp : ∀ x, m ≠ .panic x) (h : ∀ a, m = .ok a → Good g (f a)) : Good g (m >>= f) := by
  cases hm : m with
  | ok a => simpa [Bind.bind] using h a hm
  | err e => simp [Bind.bind]
  | panic x => exact absurd hm (hnp x)

theorem peekTok_np (p : PState) : ∀ x, peekTok p ≠ .panic x := by
  intro x h; unfold peekTok at h; split at h <;> simp at h

/-- functions that only consume tokens / edit tables keep the control state -/
def SameCtl (p q : PState) : Prop := q.state = p.state ∧ q.states = p.states

theorem directivesLoop_ctl (fuel : Nat) (p : PState) (v : Bool) (acc : List (Str × Str)) :
    (∀ x, directivesLoop fuel p v acc ≠ .panic x) ∧
    (∀ q a, directivesLoop fuel p v acc = .ok (q, a) → SameCtl p q) := by
  induction fuel generalizing p v acc with
  | zero =>
    refine ⟨by simp [directivesLoop], ?_⟩
    intro q a h
    simp only [directivesLoop, Res.ok.injEq, Prod.mk.injEq] at h
    rw [← h.1]; exact ⟨rfl, rfl⟩
  | succ n ih =>
    unfold directivesLoop
    cases hp : peekTok p with
    | err e => simp [Bind.bind]
    | panic x => exact absurd hp (peekTok_np p x)
    | ok t =>
      simp only [Bind.bind]
      split
      · split
        · simp
        · have := ih (skipTok p) true acc
          exact ⟨this.1, fun q a hq => by simpa [SameCtl] using this.2 q a hq⟩
      · rename_i h pf _
        split
        · have := ih (skipTok p) v acc
          exact ⟨this.1, fun q a hq => by simpa [SameCtl] using this.2 q a hq⟩
        · split
          · simp
          · have := ih (skipTok p) v (acc ++ [(h, pf)])
            exact ⟨this.1, fun q a hq => by simpa [SameCtl] using this.2 q a hq⟩
      · refine ⟨by simp, ?_⟩
        intro q a h
        simp only [Res.ok.injEq, Prod.mk.injEq] at h
        rw [← h.1]; exact ⟨rfl, rfl⟩

theorem processDirectives_ctl (fuel : Nat) (p : PState) (v : Bool) :
    (∀ x, processDirectives fuel p v ≠ .panic x) ∧
    (∀ q, processDirectives fuel p v = .ok q → SameCtl p q) := by
  unfold processDirectives
  have h := directivesLoop_ctl fuel p v []
  cases hd : directivesLoop fuel p v [] with
  | err e => simp [Bind.bind]
  | panic x => exact absurd hd (h.1 x)
  | ok r =>
    obtain ⟨q0, a⟩ := r
    have hc := h.2 q0 a hd
    simp only [Bind.bind]
    refine ⟨by simp, ?_⟩
    intro q hq
    simp only [Res.ok.injEq] at hq
    rw [← hq]
    exact ⟨hc.1, hc.2⟩

theorem skipDocEnds_ctl (fuel : Nat) (p : PState) :
    (∀ x, skipDocEnds fuel p ≠ .panic x) ∧ (∀ q, skipDocEnds fuel p = .ok q → SameCtl p q) := by
  induction fuel generalizing p with
  | zero => simp [skipDocEnds, SameCtl]
  | succ n ih =>
    unfold skipDocEnds
    cases hp : peekTok p with
    | err e => simp [Bind.bind]
    | panic x => exact absurd hp (peekTok_np p x)
    | ok t =>
      simp only [Bind.bind]
      split
      · have := ih (skipTok p)
        exact ⟨this.1, fun q hq => by simpa [SameCtl] using this.2 q hq⟩
      · simp [SameCtl]

theorem explicitDocumentStart_good {p : PState} (hst : p.states = []) :
    Good ⟨1, []⟩ (explicitDocumentStart p) := by
  unfold explicitDocumentStart
  have hd := processDirectives_ctl (p.toks.length + 1) p false
  apply Good_bind hd.1
  intro q hq
  have hc := hd.2 q hq
  apply Good_bind (peekTok_np q)
  intro t _
  split
  · simp [Good, gStep, R, R', absStack, nodeAdv, hc.2, hst]
  · simp

theorem documentStart_good {p : PState} (implicit : Bool) (hst : p.states = []) :
    Good ⟨1, []⟩ (documentStart p implicit) := by
  unfold documentStart
  have hd := skipDocEnds_ctl (p.toks.length + 1) p
  apply Good_bind hd.1
  intro q hq
  have hc := hd.2 q hq
  have hq0 : q.states = [] := by rw [hc.2, hst]
  apply Good_bind (peekTok_np q)
  intro t _
  split
  · simp [Good, gStep, R, R']
  · exact explicitDocumentStart_good hq0
  · exact explicitDocumentStart_good hq0
  · exact explicitDocumentStart_good hq0
  · split
    · have hd2 := processDirectives_ctl (q.toks.length + 1) q false
      apply Good_bind hd2.1
      intro q2 hq2
      have hc2 := hd2.2 q2 hq2
      simp [Good, gStep, R, R', absStack, nodeAdv, hc2.2, hq0]
    · exact explicitDocumentStart_good hq0

end SaphyrModel

namespace SaphyrModel

theorem absStack_push {K : State} {a : List Ctx} {sts : List State} {s : List Ctx}
    (hK : cur K = some a) (hs : absStack sts = some s) : absStack (K :: sts) = some (a ++ s) := by
  have hne : K ≠ .documentEnd := by intro h; subst h; simp [cur] at hK
  simp [absStack, hne, hK, hs]

theorem pop_good {p : PState} {gs s : List Ctx} {ev : Event} {sp : Span} (f : PState → PState)
    (hf1 : ∀ q, (f q).state = q.state) (hf2 : ∀ q, (f q).states = q.states)
    (hs : absStack p.states = some s) (hev : gStep ⟨1, gs⟩ ev = some ⟨1, s⟩) :
    Good ⟨1, gs⟩ (popState p >>= fun p => .ok (ev, sp, f p)) := by
  obtain ⟨p', hp, hR, _⟩ := popState_R hs
  simp [hp, Bind.bind, Good, hev]
  simpa [R, hf1, hf2] using hR

theorem documentContent_good {p : PState} {gs s : List Ctx}
    (hs : absStack p.states = some s) (hg : nodeAdv gs = some s) :
    Good ⟨1, gs⟩ (documentContent p) := by
  unfold documentContent
  apply Good_bind (peekTok_np p); intro t _
  have hpop : ∀ sp, Good ⟨1, gs⟩ (popState p >>= fun p => .ok (emptyScalar, sp, p)) :=
    fun sp => pop_good id (fun _ => rfl) (fun _ => rfl) hs (by simp [gStep, emptyScalar, hg])
  split <;> first | exact hpop _ | exact parseNode_good _ _ hs hg

theorem documentEnd_good {p : PState} (hst : p.states = []) :
    Good ⟨1, [.doc true]⟩ (documentEnd p) := by
  unfold documentEnd
  apply Good_bind (peekTok_np p); intro t _
  split
  · simp [Good, gStep, R, R', hst]
  · apply Good_bind (peekTok_np _); intro t2 _
    split <;> first | exact Good_err _ _ | simp [Good, gStep, R, R', hst]

end SaphyrModel

namespace SaphyrModel

theorem skipFirst_ctl (first : Bool) (p : PState) :
    (∀ x, skipFirst first p ≠ .panic x) ∧ (∀ q, skipFirst first p = .ok q → SameCtl p q) := by
  unfold skipFirst
  split
  · cases hp : peekTok p with
    | ok t => simp [Bind.bind, Pure.pure, SameCtl]
    | err e => simp [Bind.bind]
    | panic x => exact absurd hp (peekTok_np p x)
  · simp [Pure.pure, SameCtl]

theorem requireFlowEntry_ctl (first : Bool) (t : Token) (msg : String) (p : PState) :
    (∀ x, requireFlowEntry first t msg p ≠ .panic x) ∧
    (∀ q, requireFlowEntry first t msg p = .ok q → SameCtl p q) := by
  unfold requireFlowEntry
  split
  · simp [Pure.pure, SameCtl]
  · split
    · simp [Pure.pure, SameCtl]
    · simp

/-- The work-horse for collection states: given the stack abstraction `s` of `p.states` and the
    grammar stack `c ++ s`, discharge every outcome shape. -/
theorem blockMappingKey_good {p : PState} {s : List Ctx} (first : Bool)
    (hs : absStack p.states = some s) : Good ⟨1, .mapK :: s⟩ (blockMappingKey p first) := by
  unfold blockMappingKey
  have h0 := skipFirst_ctl first p
  apply Good_bind h0.1; intro q hq
  have hc := h0.2 q hq
  have hs' : absStack q.states = some s := by rw [hc.2]; exact hs
  apply Good_bind (peekTok_np q); intro t _
  split
  · apply Good_bind (peekTok_np _); intro t2 _
    split
    all_goals first
      | (simp [Good, gStep, R, R', cur, hs', nodeAdv, emptyScalar]; done)
      | exact parseNode_good _ _ (absStack_push (K := .blockMappingValue) rfl (by simpa using hs')) (by simp [nodeAdv])
  · simp [Good, gStep, R, R', cur, hs', nodeAdv, emptyScalar]
  · exact pop_good skipTok (fun _ => rfl) (fun _ => rfl) hs' (by simp [gStep])
  · simp

end SaphyrModel

namespace SaphyrModel

theorem blockMappingValue_good {p : PState} {s : List Ctx}
    (hs : absStack p.states = some s) : Good ⟨1, .mapV :: s⟩ (blockMappingValue p) := by
  unfold blockMappingValue
  apply Good_bind (peekTok_np p); intro t _
  split
  · apply Good_bind (peekTok_np _); intro t2 _
    split
    all_goals first
      | (simp [Good, gStep, R, R', cur, hs, nodeAdv, emptyScalar]; done)
      | exact parseNode_good _ _ (absStack_push (K := .blockMappingKey) rfl (by simpa using hs)) (by simp [nodeAdv])
  · simp [Good, gStep, R, R', cur, hs, nodeAdv, emptyScalar]

theorem flowMappingKey_good {p : PState} {s : List Ctx} (first : Bool)
    (hs : absStack p.states = some s) : Good ⟨1, .mapK :: s⟩ (flowMappingKey p first) := by
  unfold flowMappingKey
  have h0 := skipFirst_ctl first p
  apply Good_bind h0.1; intro q hq
  have hc := h0.2 q hq
  have hs' : absStack q.states = some s := by rw [hc.2]; exact hs
  apply Good_bind (peekTok_np q); intro t _
  split
  · exact pop_good skipTok (fun _ => rfl) (fun _ => rfl) hs' (by simp [gStep])
  · have h1 := requireFlowEntry_ctl first t "while parsing a flow mapping, did not find expected ',' or '}'" q
    apply Good_bind h1.1; intro q2 hq2
    have hc2 := h1.2 q2 hq2
    have hs2 : absStack q2.states = some s := by rw [hc2.2]; exact hs'
    apply Good_bind (peekTok_np q2); intro t2 _
    split
    · apply Good_bind (peekTok_np _); intro t3 _
      split
      all_goals first
        | (simp [Good, gStep, R, R', cur, hs2, nodeAdv, emptyScalar]; done)
        | exact parseNode_good _ _ (absStack_push (K := .flowMappingValue) rfl (by simpa using hs2)) (by simp [nodeAdv])
    · simp [Good, gStep, R, R', cur, hs2, nodeAdv, emptyScalar]
    · exact pop_good skipTok (fun _ => rfl) (fun _ => rfl) hs2 (by simp [gStep])
    · exact parseNode_good _ _ (absStack_push (K := .flowMappingEmptyValue) rfl (by simpa using hs2)) (by simp [nodeAdv])

theorem flowMappingValue_good {p : PState} {s : List Ctx} (empty : Bool)
    (hs : absStack p.states = some s) : Good ⟨1, .mapV :: s⟩ (flowMappingValue p empty) := by
  unfold flowMappingValue
  apply Good_bind (peekTok_np p); intro t _
  split
  · simp [Good, gStep, R, R', cur, hs, nodeAdv, emptyScalar]
  · split
    · apply Good_bind (peekTok_np _); intro t2 _
      split
      all_goals first
        | (simp [Good, gStep, R, R', cur, hs, nodeAdv, emptyScalar]; done)
        | exact parseNode_good _ _ (absStack_push (K := .flowMappingKey) rfl (by simpa using hs)) (by simp [nodeAdv])
    · simp [Good, gStep, R, R', cur, hs, nodeAdv, emptyScalar]

theorem flowSequenceEntry_good {p : PState} {s : List Ctx} (first : Bool)
    (hs : absStack p.states = some s) : Good ⟨1, .seq :: s⟩ (flowSequenceEntry p first) := by
  unfold flowSequenceEntry
  have h0 := skipFirst_ctl first p
  apply Good_bind h0.1; intro q hq
  have hc := h0.2 q hq
  have hs' : absStack q.states = some s := by rw [hc.2]; exact hs
  apply Good_bind (peekTok_np q); intro t _
  split
  · exact pop_good skipTok (fun _ => rfl) (fun _ => rfl) hs' (by simp [gStep])
  · have h1 := requireFlowEntry_ctl first t "while parsing a flow sequence, expected ',' or ']'" q
    apply Good_bind h1.1; intro q2 hq2
    have hc2 := h1.2 q2 hq2
    have hs2 : absStack q2.states = some s := by rw [hc2.2]; exact hs'
    apply Good_bind (peekTok_np q2); intro t2 _
    split
    · exact pop_good skipTok (fun _ => rfl) (fun _ => rfl) hs2 (by simp [gStep])
    · simp [Good, gStep, R, R', cur, hs2, nodeAdv]
    · exact parseNode_good _ _ (absStack_push (K := .flowSequenceEntry) rfl (by simpa using hs2)) (by simp [nodeAdv])

theorem indentlessSequenceEntry_good {p : PState} {s : List Ctx}
    (hs : absStack p.states = some s) : Good ⟨1, .seq :: s⟩ (indentlessSequenceEntry p) := by
  unfold indentlessSequenceEntry
  apply Good_bind (peekTok_np p); intro t _
  split
  · apply Good_bind (peekTok_np _); intro t2 _
    split
    all_goals first
      | (simp [Good, gStep, R, R', cur, hs, nodeAdv, emptyScalar]; done)
      | exact parseNode_good _ _ (absStack_push (K := .indentlessSequenceEntry) rfl (by simpa using hs)) (by simp [nodeAdv])
  · exact pop_good id (fun _ => rfl) (fun _ => rfl) hs (by simp [gStep])

theorem blockSequenceEntry_good {p : PState} {s : List Ctx} (first : Bool)
    (hs : absStack p.states = some s) : Good ⟨1, .seq :: s⟩ (blockSequenceEntry p first) := by
  unfold blockSequenceEntry
  have h0 := skipFirst_ctl first p
  apply Good_bind h0.1; intro q hq
  have hc := h0.2 q hq
  have hs' : absStack q.states = some s := by rw [hc.2]; exact hs
  apply Good_bind (peekTok_np q); intro t _
  split
  · exact pop_good skipTok (fun _ => rfl) (fun _ => rfl) hs' (by simp [gStep])
  · apply Good_bind (peekTok_np _); intro t2 _
    split
    all_goals first
      | (simp [Good, gStep, R, R', cur, hs', nodeAdv, emptyScalar]; done)
      | exact parseNode_good _ _ (absStack_push (K := .blockSequenceEntry) rfl (by simpa using hs')) (by simp [nodeAdv])
  · simp

theorem flowSequenceEntryMappingKey_good {p : PState} {s : List Ctx}
    (hs : absStack p.states = some s) :
    Good ⟨1, .mapK :: .seq :: s⟩ (flowSequenceEntryMappingKey p) := by
  unfold flowSequenceEntryMappingKey
  apply Good_bind (peekTok_np p); intro t _
  split
  all_goals first
    | (simp [Good, gStep, R, R', cur, hs, nodeAdv, emptyScalar]; done)
    | exact parseNode_good _ _ (absStack_push (K := .flowSequenceEntryMappingValue) rfl (by simpa using hs)) (by simp [nodeAdv])

theorem flowSequenceEntryMappingValue_good {p : PState} {s : List Ctx}
    (hs : absStack p.states = some s) :
    Good ⟨1, .mapV :: .seq :: s⟩ (flowSequenceEntryMappingValue p) := by
  unfold flowSequenceEntryMappingValue
  apply Good_bind (peekTok_np p); intro t _
  split
  · apply Good_bind (peekTok_np _); intro t2 _
    split
    all_goals first
      | (simp [Good, gStep, R, R', cur, hs, nodeAdv, emptyScalar]; done)
      | exact parseNode_good _ _ (absStack_push (K := .flowSequenceEntryMappingEnd _) rfl (by simpa using hs)) (by simp [nodeAdv])
  · simp [Good, gStep, R, R', cur, hs, nodeAdv, emptyScalar]

/-- One step of the parser from a related state is a grammar step to a related state.
    (`State::End` is excluded: `next_event` never calls `parse` again after `StreamEnd`.) -/
theorem parseStep_good {p : PState} {g : G} (h : R p g) (hne : p.state ≠ .end) :
    Good g (parseStep p) := by
  unfold parseStep
  unfold R at h
  split <;> rename_i hst <;> rw [hst] at h <;> simp only [R', cur] at h
  · exact absurd hst hne
  · -- streamStart
    obtain ⟨hg, hs⟩ := h; subst hg
    unfold streamStart
    apply Good_bind (peekTok_np p); intro t _
    split <;> simp [Good, gStep, R, R', hs]
  · obtain ⟨hg, hs⟩ := h; subst hg; exact documentStart_good true hs
  · obtain ⟨hg, hs⟩ := h; subst hg; exact documentStart_good false hs
  · obtain ⟨hp, s, hs, hg⟩ := h
    obtain ⟨ph, st⟩ := g; simp at hp hg; subst hp; exact documentContent_good hs hg
  · obtain ⟨hg, hs⟩ := h; subst hg; exact documentEnd_good hs
  · obtain ⟨hp, s, hs, hg⟩ := h
    obtain ⟨ph, st⟩ := g; simp at hp hg; subst hp; exact parseNode_good _ _ hs hg
  all_goals
    obtain ⟨hp, c, s, hc, hs, hg⟩ := h
    obtain ⟨ph, st⟩ := g; simp at hp hg hc; subst hp; subst hc; subst hg
  · exact blockMappingKey_good true hs
  · exact blockMappingKey_good false hs
  · exact blockMappingValue_good hs
  · exact blockSequenceEntry_good true hs
  · exact blockSequenceEntry_good false hs
  · exact flowSequenceEntry_good true hs
  · exact flowSequenceEntry_good false hs
  · exact flowMappingKey_good true hs
  · exact flowMappingKey_good false hs
  · exact flowMappingValue_good false hs
  · exact indentlessSequenceEntry_good hs
  · exact flowSequenceEntryMappingKey_good hs
  · exact flowSequenceEntryMappingValue_good hs
  · simp [Good, gStep, R, R', cur, hs]
  · exact flowMappingValue_good true hs

end SaphyrModel
