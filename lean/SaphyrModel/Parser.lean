/-! Prototype: model of saphyr-parser's `Parser` state machine over a token list. -/
namespace SaphyrModel

structure Marker where
  index : Nat
  line : Nat
  col : Nat
deriving Repr, DecidableEq, Inhabited

structure Span where
  start : Marker
  stop : Marker
deriving Repr, DecidableEq, Inhabited

def Span.empty (m : Marker) : Span := ⟨m, m⟩

abbrev Str := List Char

inductive ScalarStyle | plain | singleQuoted | doubleQuoted | literal | folded
deriving Repr, DecidableEq

inductive TokenType
  | streamStart | streamEnd
  | versionDirective (major minor : Nat)
  | tagDirective (handle pfx : Str)
  | documentStart | documentEnd
  | blockSequenceStart | blockMappingStart | blockEnd
  | flowSequenceStart | flowSequenceEnd | flowMappingStart | flowMappingEnd
  | blockEntry | flowEntry | key | value
  | alias (name : Str) | anchor (name : Str)
  | tag (handle suffix : Str)
  | scalar (style : ScalarStyle) (v : Str)
deriving Repr, DecidableEq

structure Token where
  span : Span
  ty : TokenType
deriving Repr, DecidableEq

structure Tag where
  handle : Str
  suffix : Str
deriving Repr, DecidableEq

inductive Event
  | streamStart | streamEnd
  | documentStart (explicit : Bool) | documentEnd
  | alias (id : Nat)
  | scalar (v : Str) (style : ScalarStyle) (aid : Nat) (tag : Option Tag)
  | sequenceStart (aid : Nat) (tag : Option Tag) | sequenceEnd
  | mappingStart (aid : Nat) (tag : Option Tag) | mappingEnd
deriving Repr, DecidableEq

inductive State
  | streamStart | implicitDocumentStart | documentStart | documentContent | documentEnd
  | blockNode | blockSequenceFirstEntry | blockSequenceEntry | indentlessSequenceEntry
  | blockMappingFirstKey | blockMappingKey | blockMappingValue
  | flowSequenceFirstEntry | flowSequenceEntry
  | flowSequenceEntryMappingKey | flowSequenceEntryMappingValue | flowSequenceEntryMappingEnd (m : Marker)
  | flowMappingFirstKey | flowMappingKey | flowMappingValue | flowMappingEmptyValue
  | «end»
deriving Repr, DecidableEq

structure ScanError where
  mark : Marker
  info : String
deriving Repr, DecidableEq

inductive PanicSite
  | popStateUnwrap | stateMachineEnd | fetchTokenExpect | unreachable
  | loadNodeUnreachable | assertDocumentEnd | fuel
deriving Repr, DecidableEq

inductive Res (α : Type) where
  | ok (a : α)
  | err (e : ScanError)
  | panic (p : PanicSite)
deriving Repr

structure PState where
  toks : List Token
  scanErr : Option ScanError
  eofMark : Marker
  state : State
  states : List State
  anchors : List (Str × Nat)
  anchorId : Nat
  tags : List (Str × Str)
  keepTags : Bool
deriving Repr

def emptyScalar : Event := .scalar ['~'] .plain 0 none
def emptyScalarWithAnchor (a : Nat) (t : Option Tag) : Event := .scalar [] .plain a t

/-- `peek_token`: the next token, or the (latched) scanner error. -/
def peekTok (p : PState) : Res Token :=
  match p.toks with
  | t :: _ => .ok t
  | [] => .err (p.scanErr.getD ⟨p.eofMark, "unexpected eof"⟩)

def skipTok (p : PState) : PState := { p with toks := p.toks.tail }

def popState (p : PState) : Res PState :=
  match p.states with
  | s :: ss => .ok { p with state := s, states := ss }
  | [] => .panic .popStateUnwrap

def pushState (p : PState) (s : State) : PState := { p with states := s :: p.states }

def lookup (k : Str) : List (Str × α) → Option α
  | [] => none
  | (k', v) :: r => if k = k' then some v else lookup k r

def isHandleForm (h : Str) : Bool :=
  h.length ≥ 2 && h.head? == some '!' && h.getLast? == some '!'

def resolveTag (p : PState) (span : Span) (handle suffix : Str) : Res Tag :=
  if handle = ['!', '!'] then
    .ok ⟨(lookup ['!','!'] p.tags).getD "tag:yaml.org,2002:".toList, suffix⟩
  else if handle = [] ∧ suffix = ['!'] then
    .ok ⟨(lookup [] p.tags).getD [], suffix⟩
  else match lookup handle p.tags with
    | some pfx => .ok ⟨pfx, suffix⟩
    | none =>
      if isHandleForm handle then .err ⟨span.start, "the handle wasn't declared"⟩
      else .ok ⟨handle, suffix⟩

def registerAnchor (p : PState) (name : Str) : Nat × PState :=
  (p.anchorId, { p with anchorId := p.anchorId + 1, anchors := (name, p.anchorId) :: p.anchors })

abbrev Out := Event × Span × PState

/-- second half of `parse_node`, after properties were consumed. -/
def parseNodeContent (p : PState) (block indentless : Bool) (aid : Nat) (tag : Option Tag) : Res Out :=
  match peekTok p with
  | .err e => .err e | .panic x => .panic x
  | .ok t =>
    match t.ty with
    | .blockEntry =>
      if indentless then .ok (.sequenceStart aid tag, t.span, { p with state := .indentlessSequenceEntry })
      else if tag.isSome || aid > 0 then
        match popState p with
        | .ok p => .ok (emptyScalarWithAnchor aid tag, t.span, p)
        | .err e => .err e | .panic x => .panic x
      else .err ⟨t.span.start, "while parsing a node, did not find expected node content"⟩
    | .scalar style v =>
      match popState p with
      | .ok p => .ok (.scalar v style aid tag, t.span, skipTok p)
      | .err e => .err e | .panic x => .panic x
    | .flowSequenceStart => .ok (.sequenceStart aid tag, t.span, { p with state := .flowSequenceFirstEntry })
    | .flowMappingStart => .ok (.mappingStart aid tag, t.span, { p with state := .flowMappingFirstKey })
    | .blockSequenceStart =>
      if block then .ok (.sequenceStart aid tag, t.span, { p with state := .blockSequenceFirstEntry })
      else if tag.isSome || aid > 0 then
        match popState p with
        | .ok p => .ok (emptyScalarWithAnchor aid tag, t.span, p)
        | .err e => .err e | .panic x => .panic x
      else .err ⟨t.span.start, "while parsing a node, did not find expected node content"⟩
    | .blockMappingStart =>
      if block then .ok (.mappingStart aid tag, t.span, { p with state := .blockMappingFirstKey })
      else if tag.isSome || aid > 0 then
        match popState p with
        | .ok p => .ok (emptyScalarWithAnchor aid tag, t.span, p)
        | .err e => .err e | .panic x => .panic x
      else .err ⟨t.span.start, "while parsing a node, did not find expected node content"⟩
    | _ =>
      if tag.isSome || aid > 0 then
        match popState p with
        | .ok p => .ok (emptyScalarWithAnchor aid tag, t.span, p)
        | .err e => .err e | .panic x => .panic x
      else .err ⟨t.span.start, "while parsing a node, did not find expected node content"⟩

def parseNode (p : PState) (block indentless : Bool) : Res Out :=
  match peekTok p with
  | .err e => .err e | .panic x => .panic x
  | .ok t =>
    match t.ty with
    | .alias name =>
      match popState p with
      | .err e => .err e | .panic x => .panic x
      | .ok p =>
        let p := skipTok p
        match lookup name p.anchors with
        | none => .err ⟨t.span.start, "while parsing node, found unknown anchor"⟩
        | some id => .ok (.alias id, t.span, p)
    | .anchor name =>
      let p := skipTok p
      let (aid, p) := registerAnchor p name
      match peekTok p with
      | .err e => .err e | .panic x => .panic x
      | .ok t2 =>
        match t2.ty with
        | .tag h s =>
          let p := skipTok p
          match resolveTag p t.span h s with
          | .err e => .err e | .panic x => .panic x
          | .ok tg => parseNodeContent p block indentless aid (some tg)
        | _ => parseNodeContent p block indentless aid none
    | .tag h s =>
      let p := skipTok p
      match resolveTag p t.span h s with
      | .err e => .err e | .panic x => .panic x
      | .ok tg =>
        match peekTok p with
        | .err e => .err e | .panic x => .panic x
        | .ok t2 =>
          match t2.ty with
          | .anchor name =>
            let p := skipTok p
            let (aid, p) := registerAnchor p name
            parseNodeContent p block indentless aid (some tg)
          | _ => parseNodeContent p block indentless 0 (some tg)
    | _ => parseNodeContent p block indentless 0 none

end SaphyrModel
