import SaphyrModel.Parser
/-! Specification of positions (C12): line and column of an index of the input, obtained by
counting line breaks and characters. LF, CR LF and a lone CR are each one line break. -/
namespace SaphyrModel.Spec
open SaphyrModel

/-- line (1-based) and column (0-based) after consuming the characters `s`, starting from
    `(line, col)`. A CR immediately followed by LF only advances the column (the pair is one
    break, taken at the LF). -/
def advanceLC : Str → Nat × Nat → Nat × Nat
  | [], lc => lc
  | '\n' :: r, (l, _) => advanceLC r (l + 1, 0)
  | '\r' :: '\n' :: r, (l, c) => advanceLC ('\n' :: r) (l, c + 1)
  | '\r' :: r, (l, _) => advanceLC r (l + 1, 0)
  | _ :: r, (l, c) => advanceLC r (l, c + 1)

/-- true line/column of index `idx` of `s` -/
def lineCol (s : Str) (idx : Nat) : Nat × Nat := advanceLC (s.take idx) (1, 0)

/-- A reported mark is *true* for input `s`: inside the input, and — before the end — at the
    counted line and column. -/
def markTrue (s : Str) (m : Marker) : Bool :=
  m.index ≤ s.length && (m.index == s.length || lineCol s m.index == (m.line, m.col))

end SaphyrModel.Spec
