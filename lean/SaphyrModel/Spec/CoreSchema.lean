import SaphyrModel.Resolve
/-! YAML 1.2.2 core schema (§10.3.2) as recognisers with values — the specification side of C08.
Written from the regular expressions of the specification, independently of the resolver. -/
namespace SaphyrModel.Spec
open ProtoR

inductive CoreVal
  | null | bool (b : Bool) | int (i : Int) | float (f : FloatDen)
deriving Repr, DecidableEq

def isDec (c : Char) : Bool := '0' ≤ c && c ≤ '9'
def isOct (c : Char) : Bool := '0' ≤ c && c ≤ '7'
def isHexD (c : Char) : Bool := isDec c || ('a' ≤ c && c ≤ 'f') || ('A' ≤ c && c ≤ 'F')
def hexDigVal (c : Char) : Nat :=
  if isDec c then c.toNat - '0'.toNat else if 'a' ≤ c && c ≤ 'f' then c.toNat - 'a'.toNat + 10 else c.toNat - 'A'.toNat + 10
def valBase (b : Nat) (ds : Str) : Nat := ds.foldl (fun v c => v * b + hexDigVal c) 0

/-- `[-+]? [0-9]+` | `0o [0-7]+` | `0x [0-9a-fA-F]+` -/
def coreInt (s : Str) : Option Int :=
  match s with
  | '0' :: 'o' :: ds => if !ds.isEmpty && ds.all isOct then some (valBase 8 ds) else none
  | '0' :: 'x' :: ds => if !ds.isEmpty && ds.all isHexD then some (valBase 16 ds) else none
  | '-' :: ds => if !ds.isEmpty && ds.all isDec then some (-(valBase 10 ds : Int)) else none
  | '+' :: ds => if !ds.isEmpty && ds.all isDec then some (valBase 10 ds) else none
  | ds => if !ds.isEmpty && ds.all isDec then some (valBase 10 ds) else none

/-- `[-+]?` -/
def optSign : Str → Bool × Str
  | '-' :: r => (true, r)
  | '+' :: r => (false, r)
  | r => (false, r)

/-- `( \. [0-9]+ | [0-9]+ ( \. [0-9]* )? ) ( [eE] [-+]? [0-9]+ )?` with its decimal value -/
def decBody (neg : Bool) (r : Str) : Option FloatDen :=
  let ip := r.takeWhile isDec
  let r1 := r.dropWhile isDec
  let mant? : Option (Str × Str × Str) :=
    match r1 with
    | '.' :: t =>
      let fp := t.takeWhile isDec
      if ip.isEmpty && fp.isEmpty then none else some (ip, fp, t.dropWhile isDec)
    | t => if ip.isEmpty then none else some (ip, [], t)
  match mant? with
  | none => none
  | some (ip, fp, r2) =>
    let m := valBase 10 (ip ++ fp)
    let e0 : Int := -(fp.length : Int)
    match r2 with
    | [] => some (.fin neg m e0)
    | e :: t =>
      if e == 'e' || e == 'E' then
        let ex := optSign t
        if !ex.2.isEmpty && ex.2.all isDec then
          let ev : Int := valBase 10 ex.2
          some (.fin neg m (e0 + (if ex.1 then -ev else ev)))
        else none
      else none

/-- `[-+]? ( \. [0-9]+ | [0-9]+ ( \. [0-9]* )? ) ( [eE] [-+]? [0-9]+ )?` with its decimal value -/
def coreDecFloat (s : Str) : Option FloatDen :=
  let nr := optSign s
  decBody nr.1 nr.2

def coreFloat (s : Str) : Option FloatDen :=
  let str := String.ofList s
  if str == ".inf" || str == ".Inf" || str == ".INF" || str == "+.inf" || str == "+.Inf" || str == "+.INF" then some (.inf false)
  else if str == "-.inf" || str == "-.Inf" || str == "-.INF" then some (.inf true)
  else if str == ".nan" || str == ".NaN" || str == ".NAN" then some .nan
  else coreDecFloat s

def coreNull (s : Str) : Bool :=
  let str := String.ofList s
  str == "null" || str == "Null" || str == "NULL" || str == "~" || str == ""
def coreBool (s : Str) : Option Bool :=
  let str := String.ofList s
  if str == "true" || str == "True" || str == "TRUE" then some true
  else if str == "false" || str == "False" || str == "FALSE" then some false else none

/-- every reading the core schema allows for a plain scalar (an integer literal is also a float
    literal; resolution order of the tag regexes is null, bool, int, float) -/
def coreLiteral (s : Str) : Option CoreVal :=
  if coreNull s then some .null
  else match coreBool s with
    | some b => some (.bool b)
    | none => match coreInt s with
      | some i => some (.int i)
      | none => (coreFloat s).map .float

end SaphyrModel.Spec
