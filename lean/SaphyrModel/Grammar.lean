import SaphyrModel.Parser2
namespace SaphyrModel

/-! Spec automaton for "prefix of a well-nested YAML event sentence". -/
inductive Ctx | doc (done : Bool) | seq | mapK | mapV
deriving Repr, DecidableEq

def nodeAdv : List Ctx → Option (List Ctx)
  | .doc false :: r => some (.doc true :: r)
  | .seq :: r => some (.seq :: r)
  | .mapK :: r => some (.mapV :: r)
  | .mapV :: r => some (.mapK :: r)
  | _ => none

structure G where
  phase : Nat        -- 0 before StreamStart, 1 inside, 2 after StreamEnd
  stack : List Ctx
deriving Repr, DecidableEq

def gStep (g : G) : Event → Option G
  | .streamStart => if g.phase = 0 then some ⟨1, []⟩ else none
  | .streamEnd => if g.phase = 1 ∧ g.stack = [] then some ⟨2, []⟩ else none
  | .documentStart _ => if g.phase = 1 ∧ g.stack = [] then some ⟨1, [.doc false]⟩ else none
  | .documentEnd => if g.phase = 1 ∧ g.stack = [.doc true] then some ⟨1, []⟩ else none
  | .scalar .. | .alias _ => if g.phase = 1 then (nodeAdv g.stack).map (⟨1, ·⟩) else none
  | .sequenceStart .. => if g.phase = 1 then (nodeAdv g.stack).map (fun s => ⟨1, .seq :: s⟩) else none
  | .mappingStart .. => if g.phase = 1 then (nodeAdv g.stack).map (fun s => ⟨1, .mapK :: s⟩) else none
  | .sequenceEnd => if g.phase = 1 then match g.stack with | .seq :: r => some ⟨1, r⟩ | _ => none else none
  | .mappingEnd => if g.phase = 1 then match g.stack with | .mapK :: r => some ⟨1, r⟩ | _ => none else none

def gRun (g : G) : List Event → Option G
  | [] => some g
  | e :: es => (gStep g e).bind (gRun · es)

/-- what a collection state contributes to the grammar stack -/
def cur : State → Option (List Ctx)
  | .blockSequenceFirstEntry | .blockSequenceEntry | .indentlessSequenceEntry
  | .flowSequenceFirstEntry | .flowSequenceEntry => some [.seq]
  | .blockMappingFirstKey | .blockMappingKey | .flowMappingFirstKey | .flowMappingKey => some [.mapK]
  | .blockMappingValue | .flowMappingValue | .flowMappingEmptyValue => some [.mapV]
  | .flowSequenceEntryMappingKey => some [.mapK, .seq]
  | .flowSequenceEntryMappingValue => some [.mapV, .seq]
  | .flowSequenceEntryMappingEnd _ => some [.mapK, .seq]
  | _ => none

def absStack : List State → Option (List Ctx)
  | [] => none
  | k :: r =>
    if k = .documentEnd ∧ r = [] then some [.doc true]
    else match cur k, absStack r with
      | some a, some b => some (a ++ b)
      | _, _ => none

/-- simulation relation, on the control part of the parser state only -/
def R' (st : State) (sts : List State) (g : G) : Prop :=
  match st with
  | .streamStart => g = ⟨0, []⟩ ∧ sts = []
  | .implicitDocumentStart | .documentStart => g = ⟨1, []⟩ ∧ sts = []
  | .end => g = ⟨2, []⟩
  | .documentEnd => g = ⟨1, [.doc true]⟩ ∧ sts = []
  | .blockNode | .documentContent =>
      g.phase = 1 ∧ ∃ s, absStack sts = some s ∧ nodeAdv g.stack = some s
  | st => g.phase = 1 ∧ ∃ c s, cur st = some c ∧ absStack sts = some s ∧ g.stack = c ++ s

def R (p : PState) (g : G) : Prop := R' p.state p.states g

end SaphyrModel
