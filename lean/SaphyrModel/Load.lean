import SaphyrModel.Parser2
import SaphyrModel.Resolve
/-! Concrete model of `YamlLoader` (loader.rs), the four node types (one type carrying spans; the
bare kinds have default spans everywhere), `Scalar::parse_from_cow_and_metadata` (scalar.rs) and
`parse_representation[_recursive]` (macros.rs). -/
namespace SaphyrModel
open ProtoR

inductive Node
  | repr (sp : Span) (v : Str) (style : ScalarStyle) (tag : Option Tag)
  | value (sp : Span) (s : Scalar)
  | seq (sp : Span) (items : List Node)
  | map (sp : Span) (pairs : List (Node × Node))
  | alias (sp : Span) (n : Nat)
  | bad (sp : Span)
deriving Repr, Inhabited

def Span.dflt : Span := ⟨⟨0, 0, 0⟩, ⟨0, 0, 0⟩⟩

/-- `OrderedFloat` equality on decimal denotations: NaN = NaN, +0 = −0, otherwise equal values.
    (Two different decimals that round to the same binary64 are *not* identified: rounding is
    outside the model.) -/
def floatEq : FloatDen → FloatDen → Bool
  | .nan, .nan => true
  | .inf a, .inf b => a == b
  | .fin n1 m1 e1, .fin n2 m2 e2 =>
    if m1 == 0 && m2 == 0 then true
    else n1 == n2 &&
      (let e := min e1 e2
       m1 * 10 ^ (e1 - e).toNat == m2 * 10 ^ (e2 - e).toNat)
  | _, _ => false

def scalarEq : Scalar → Scalar → Bool
  | .null, .null => true
  | .bool a, .bool b => a == b
  | .int a, .int b => a == b
  | .float a, .float b => floatEq a b
  | .string a, .string b => a == b
  | _, _ => false

mutual
/-- derived `PartialEq` of the data part: spans are ignored -/
def Node.eqv : Node → Node → Bool
  | .repr _ v s t, .repr _ v' s' t' => v == v' && s == s' && t == t'
  | .value _ a, .value _ b => scalarEq a b
  | .seq _ xs, .seq _ ys => eqvList xs ys
  | .map _ ps, .map _ qs => eqvPairs ps qs
  | .alias _ a, .alias _ b => a == b
  | .bad _, .bad _ => true
  | _, _ => false
def eqvList : List Node → List Node → Bool
  | [], [] => true
  | x :: xs, y :: ys => Node.eqv x y && eqvList xs ys
  | _, _ => false
def eqvPairs : List (Node × Node) → List (Node × Node) → Bool
  | [], [] => true
  | (k, v) :: ps, (k', v') :: qs => Node.eqv k k' && Node.eqv v v' && eqvPairs ps qs
  | _, _ => false
end

def Node.isBad : Node → Bool | .bad _ => true | _ => false
def Node.withSpan (marked : Bool) (n : Node) (sp : Span) : Node :=
  if !marked then n else
  match n with
  | .repr _ v s t => .repr sp v s t
  | .value _ s => .value sp s
  | .seq _ xs => .seq sp xs
  | .map _ ps => .map sp ps
  | .alias _ k => .alias sp k
  | .bad _ => .bad sp

/-- `LinkedHashMap::insert` (hashlink 0.10): an existing entry is moved to the back, its value
    replaced, its *old key object kept*. -/
def mapInsert (k v : Node) (m : List (Node × Node)) : List (Node × Node) :=
  match m.find? (fun p => Node.eqv p.1 k) with
  | some p => m.filter (fun q => !Node.eqv q.1 k) ++ [(p.1, v)]
  | none => m ++ [(k, v)]

-- scalar resolution with metadata --------------------------------------------------------------

def coreHandle : Str := "tag:yaml.org,2002:".toList

/-- `Scalar::parse_from_cow_and_metadata` -/
def parseWithMeta (v : Str) (style : ScalarStyle) (tag : Option Tag) : Option Scalar :=
  if style != .plain then some (.string v)
  else match tag with
    | some t =>
      if t.handle == coreHandle then
        if t.suffix == "bool".toList then
          (if v == "true".toList then some (.bool true) else if v == "false".toList then some (.bool false) else none)
        else if t.suffix == "int".toList then (fromStrRadix v 10).map .int
        else if t.suffix == "float".toList then (parseF64Yaml v).map .float
        else if t.suffix == "null".toList then (if v == ['~'] || v == "null".toList then some .null else none)
        else some (.string v)
      else some (.string v)
    | none => some (parseFromCow v)

/-- `value_from_cow_and_metadata` / `Representation` -/
def scalarNode (early : Bool) (v : Str) (style : ScalarStyle) (tag : Option Tag) : Node :=
  if early then
    match parseWithMeta v style tag with
    | some s => .value Span.dflt s
    | none => .bad Span.dflt
  else .repr Span.dflt v style tag

-- the loader --------------------------------------------------------------------------------------

inductive LoadSite | docStackPopUnwrap | keyStackLastUnwrap | keyStackPopUnwrap | docEndUnreachable
deriving Repr, DecidableEq

structure LCfg where
  marked : Bool
  early : Bool
deriving Repr

structure LSt where
  docs : List Node := []
  docStack : List (Node × Nat) := []     -- head = top
  keyStack : List (Option Node) := []    -- head = top; `none` = the next node is a key
  anchors : List (Nat × Node) := []
deriving Repr

inductive LRes
  | ok (s : LSt)
  | panic (p : LoadSite)
deriving Repr

def anchorsInsert (a : List (Nat × Node)) (id : Nat) (n : Node) : List (Nat × Node) :=
  (id, n) :: a.filter (fun p => p.1 != id)
def anchorsGet (a : List (Nat × Node)) (id : Nat) : Option Node := (a.find? (fun p => p.1 == id)).map (·.2)

/-- `insert_new_node` -/
def insertNewNode (s : LSt) (n : Node) (aid : Nat) : LRes :=
  let s := if aid > 0 then { s with anchors := anchorsInsert s.anchors aid n } else s
  match s.docStack with
  | [] => .ok { s with docStack := [(n, aid)] }
  | (.seq sp items, a) :: rest => .ok { s with docStack := (.seq sp (items ++ [n]), a) :: rest }
  | (.map sp m, a) :: rest =>
    match s.keyStack with
    | [] => .panic .keyStackLastUnwrap
    | none :: ks => .ok { s with keyStack := some n :: ks }
    | some k :: ks => .ok { s with docStack := (.map sp (mapInsert k n m), a) :: rest, keyStack := none :: ks }
  | _ :: _ => .ok s

def onEvent (c : LCfg) (s : LSt) (e : Event) (sp : Span) : LRes :=
  match e with
  | .documentStart _ | .streamStart | .streamEnd => .ok s
  | .documentEnd =>
    match s.docStack with
    | [] => .ok { s with docs := s.docs ++ [Node.withSpan c.marked (.bad Span.dflt) sp] }
    | [(n, _)] => .ok { s with docs := s.docs ++ [n], docStack := [] }
    | _ => .panic .docEndUnreachable
  | .sequenceStart aid _ =>
    .ok { s with docStack := (Node.withSpan c.marked (.seq Span.dflt []) sp, aid) :: s.docStack }
  | .sequenceEnd =>
    match s.docStack with
    | [] => .panic .docStackPopUnwrap
    | (n, a) :: rest => insertNewNode { s with docStack := rest } n a
  | .mappingStart aid _ =>
    .ok { s with docStack := (Node.withSpan c.marked (.map Span.dflt []) sp, aid) :: s.docStack,
                 keyStack := none :: s.keyStack }
  | .mappingEnd =>
    match s.keyStack with
    | [] => .panic .keyStackPopUnwrap
    | _ :: ks =>
      match s.docStack with
      | [] => .panic .docStackPopUnwrap
      | (n, a) :: rest => insertNewNode { s with docStack := rest, keyStack := ks } n a
  | .scalar v style aid tag =>
    insertNewNode s (Node.withSpan c.marked (scalarNode c.early v style tag) sp) aid
  | .alias id =>
    let n := (anchorsGet s.anchors id).getD (.bad Span.dflt)
    insertNewNode s (Node.withSpan c.marked n sp) 0

def foldEvents (c : LCfg) : LSt → List (Event × Span) → LRes
  | s, [] => .ok s
  | s, (e, sp) :: es =>
    match onEvent c s e sp with
    | .ok s' => foldEvents c s' es
    | .panic p => .panic p

-- parse_representation ----------------------------------------------------------------------------

/-- `parse_representation`: a `Representation` is resolved (BadValue when the tag forces a type
    the text does not have); every other node is put back untouched. -/
def parseRepr : Node → Node
  | .repr sp v style tag =>
    match parseWithMeta v style tag with
    | some s => .value sp s
    | none => .bad sp
  | n => n

mutual
/-- `parse_representation_recursive`. Mapping pairs are re-inserted (`collect` into a fresh
    `LinkedHashMap`), so keys that become equal after resolution merge. -/
def parseReprRec : Node → Node
  | .repr sp v style tag =>
    match parseWithMeta v style tag with
    | some s => .value sp s
    | none => .bad sp
  | .seq sp xs => .seq sp (parseReprList xs)
  | .map sp ps => .map sp (parseReprPairs ps [])
  | n => n
def parseReprList : List Node → List Node
  | [] => []
  | x :: xs => parseReprRec x :: parseReprList xs
def parseReprPairs : List (Node × Node) → List (Node × Node) → List (Node × Node)
  | [], acc => acc
  | (k, v) :: ps, acc => parseReprPairs ps (mapInsert (parseReprRec k) (parseReprRec v) acc)
end

end SaphyrModel
