/-! Prototype: YamlLoader fold vs. tree denotation (property C07 shape). Scalars are abstract payloads. -/
namespace ProtoL

/-- events, with the scalar payload already resolved to an abstract leaf value `L` -/
inductive Ev (L : Type)
  | scalar (v : L) (aid : Nat)
  | alias (id : Nat)
  | seqStart (aid : Nat) | seqEnd
  | mapStart (aid : Nat) | mapEnd
  | docStart | docEnd | streamStart | streamEnd

inductive Node (L : Type)
  | leaf (v : L)
  | seq (items : List (Node L))
  | map (pairs : List (Node L × Node L))
  | bad

/-- abstract document trees = well-nested event sentences -/
inductive ETree (L : Type)
  | scalar (v : L) (aid : Nat)
  | alias (id : Nat)
  | seq (aid : Nat) (items : List (ETree L))
  | map (aid : Nat) (pairs : List (ETree L × ETree L))

variable {L : Type}

mutual
def flatten : ETree L → List (Ev L)
  | .scalar v a => [.scalar v a]
  | .alias i => [.alias i]
  | .seq a items => .seqStart a :: (flattenList items ++ [.seqEnd])
  | .map a pairs => .mapStart a :: (flattenPairs pairs ++ [.mapEnd])
def flattenList : List (ETree L) → List (Ev L)
  | [] => []
  | t :: ts => flatten t ++ flattenList ts
def flattenPairs : List (ETree L × ETree L) → List (Ev L)
  | [] => []
  | (k, v) :: ps => flatten k ++ flatten v ++ flattenPairs ps
end

abbrev Env (L : Type) := List (Nat × Node L)
def Env.find (e : Env L) (id : Nat) : Option (Node L) :=
  match e with
  | [] => none
  | (k, v) :: r => if k = id then some v else Env.find r id
def Env.bind (e : Env L) (aid : Nat) (n : Node L) : Env L := if aid > 0 then (aid, n) :: e else e

/-- `LinkedHashMap::insert` with an abstract key equivalence: replace + move to back, old key kept -/
def mapInsert (eqv : Node L → Node L → Bool) (k v : Node L) (m : List (Node L × Node L)) :
    List (Node L × Node L) :=
  match m.find? (fun p => eqv p.1 k) with
  | some p => m.filter (fun q => !eqv q.1 k) ++ [(p.1, v)]
  | none => m ++ [(k, v)]

-- independent denotation, threading the anchor environment in document order
mutual
def denote (eqv : Node L → Node L → Bool) (env : Env L) : ETree L → Node L × Env L
  | .scalar v a => (.leaf v, env.bind a (.leaf v))
  | .alias i => ((env.find i).getD .bad, env)
  | .seq a items =>
    let (ns, env') := denoteList eqv env items
    (.seq ns, env'.bind a (.seq ns))
  | .map a pairs =>
    let (m, env') := denotePairs eqv env [] pairs
    (.map m, env'.bind a (.map m))
def denoteList (eqv : Node L → Node L → Bool) (env : Env L) : List (ETree L) → List (Node L) × Env L
  | [] => ([], env)
  | t :: ts =>
    let (n, env1) := denote eqv env t
    let (ns, env2) := denoteList eqv env1 ts
    (n :: ns, env2)
def denotePairs (eqv : Node L → Node L → Bool) (env : Env L) (acc : List (Node L × Node L)) :
    List (ETree L × ETree L) → List (Node L × Node L) × Env L
  | [] => (acc, env)
  | (k, v) :: ps =>
    let (kn, env1) := denote eqv env k
    let (vn, env2) := denote eqv env1 v
    denotePairs eqv env2 (mapInsert eqv kn vn acc) ps
end

/-- loader state (repaired key stack: `none` = "next node is a key") -/
structure LSt (L : Type) where
  docs : List (Node L)
  docStack : List (Node L × Nat)
  keyStack : List (Option (Node L))
  anchors : Env L

inductive LRes (L : Type)
  | ok (s : LSt L)
  | panic

def insertNewNode (eqv : Node L → Node L → Bool) (s : LSt L) (n : Node L) (aid : Nat) : LRes L :=
  let s := { s with anchors := s.anchors.bind aid n }
  match s.docStack with
  | [] => .ok { s with docStack := [(n, aid)] }
  | (.seq items, a) :: rest => .ok { s with docStack := (.seq (items ++ [n]), a) :: rest }
  | (.map m, a) :: rest =>
    match s.keyStack with
    | [] => .panic
    | none :: ks => .ok { s with keyStack := some n :: ks }
    | some k :: ks => .ok { s with docStack := (.map (mapInsert eqv k n m), a) :: rest, keyStack := none :: ks }
  | _ :: _ => .ok s     -- parent is a scalar: cannot happen on grammatical streams; node dropped as in Rust

def onEvent (eqv : Node L → Node L → Bool) (s : LSt L) : Ev L → LRes L
  | .docStart | .streamStart | .streamEnd => .ok s
  | .docEnd =>
    match s.docStack with
    | [] => .ok { s with docs := s.docs ++ [.bad] }
    | [(n, _)] => .ok { s with docs := s.docs ++ [n], docStack := [] }
    | _ => .panic
  | .seqStart a => .ok { s with docStack := (.seq [], a) :: s.docStack }
  | .seqEnd =>
    match s.docStack with
    | [] => .panic
    | (n, a) :: rest => insertNewNode eqv { s with docStack := rest } n a
  | .mapStart a => .ok { s with docStack := (.map [], a) :: s.docStack, keyStack := none :: s.keyStack }
  | .mapEnd =>
    match s.keyStack, s.docStack with
    | _ :: ks, (n, a) :: rest => insertNewNode eqv { s with docStack := rest, keyStack := ks } n a
    | _, _ => .panic
  | .scalar v a => insertNewNode eqv s (.leaf v) a
  | .alias i => insertNewNode eqv s ((s.anchors.find i).getD .bad) 0

def fold (eqv : Node L → Node L → Bool) : LSt L → List (Ev L) → LRes L
  | s, [] => .ok s
  | s, e :: es => match onEvent eqv s e with
    | .ok s' => fold eqv s' es
    | .panic => .panic

theorem fold_append (eqv : Node L → Node L → Bool) (s : LSt L) (a b : List (Ev L)) :
    fold eqv s (a ++ b) = match fold eqv s a with | .ok s' => fold eqv s' b | .panic => .panic := by
  induction a generalizing s with
  | nil => simp [fold]
  | cons e es ih =>
    simp only [List.cons_append, fold]
    cases onEvent eqv s e with
    | ok s' => exact ih s'
    | panic => rfl

end ProtoL

namespace ProtoL
variable {L : Type}

/-- placement part of `insert_new_node` (after the anchor has been recorded) -/
def place (eqv : Node L → Node L → Bool) (s : LSt L) (n : Node L) (aid : Nat) : LRes L :=
  match s.docStack with
  | [] => .ok { s with docStack := [(n, aid)] }
  | (.seq items, a) :: rest => .ok { s with docStack := (.seq (items ++ [n]), a) :: rest }
  | (.map m, a) :: rest =>
    match s.keyStack with
    | [] => .panic
    | none :: ks => .ok { s with keyStack := some n :: ks }
    | some k :: ks => .ok { s with docStack := (.map (mapInsert eqv k n m), a) :: rest, keyStack := none :: ks }
  | _ :: _ => .ok s

theorem insertNewNode_eq (eqv : Node L → Node L → Bool) (s : LSt L) (n : Node L) (aid : Nat) :
    insertNewNode eqv s n aid = place eqv { s with anchors := s.anchors.bind aid n } n aid := by
  unfold insertNewNode place
  rfl

theorem fold_nil_match (eqv : Node L → Node L → Bool) (r : LRes L) :
    (match r with | .ok s' => fold eqv s' [] | .panic => .panic) = r := by
  cases r <;> simp [fold]

def aidOf : ETree L → Nat
  | .scalar _ a => a | .alias _ => 0 | .seq a _ => a | .map a _ => a

mutual
theorem fold_tree (eqv : Node L → Node L → Bool) (t : ETree L) (s : LSt L) :
    fold eqv s (flatten t) =
      place eqv { s with anchors := (denote eqv s.anchors t).2 } (denote eqv s.anchors t).1 (aidOf t) := by
  cases t with
  | scalar v a => simp only [flatten, fold, onEvent, insertNewNode_eq, denote, aidOf]; exact fold_nil_match eqv _
  | alias i =>
    simp only [flatten, fold, onEvent, insertNewNode_eq, denote, aidOf]
    have : ∀ (e : Env L) (n : Node L), e.bind 0 n = e := by intro e n; simp [Env.bind]
    rw [this]
    exact fold_nil_match eqv _
  | seq a items =>
    simp only [flatten, fold, onEvent]
    rw [fold_append]
    have h := fold_list eqv items { s with docStack := (.seq [], a) :: s.docStack } [] a s.docStack rfl
    rw [h]
    simp only [fold, onEvent, insertNewNode_eq, denote, aidOf, List.nil_append]
    exact fold_nil_match eqv _
  | map a pairs =>
    simp only [flatten, fold, onEvent]
    rw [fold_append]
    have h := fold_pairs eqv pairs
      { s with docStack := (.map [], a) :: s.docStack, keyStack := none :: s.keyStack } [] a s.docStack s.keyStack rfl rfl
    rw [h]
    simp only [fold, onEvent, insertNewNode_eq, denote, aidOf]
    exact fold_nil_match eqv _

theorem fold_list (eqv : Node L → Node L → Bool) (ts : List (ETree L)) (s : LSt L)
    (acc : List (Node L)) (a : Nat) (rest : List (Node L × Nat)) (hs : s.docStack = (.seq acc, a) :: rest) :
    fold eqv s (flattenList ts) =
      .ok { s with docStack := (.seq (acc ++ (denoteList eqv s.anchors ts).1), a) :: rest,
                   anchors := (denoteList eqv s.anchors ts).2 } := by
  cases ts with
  | nil => simp [flattenList, fold, denoteList, ← hs]
  | cons t ts =>
    simp only [flattenList]
    rw [fold_append, fold_tree eqv t s]
    simp only [place, hs]
    have := fold_list eqv ts
      { s with anchors := (denote eqv s.anchors t).2,
               docStack := (.seq (acc ++ [(denote eqv s.anchors t).1]), a) :: rest }
      (acc ++ [(denote eqv s.anchors t).1]) a rest rfl
    rw [this]
    simp [denoteList, List.append_assoc]

theorem fold_pairs (eqv : Node L → Node L → Bool) (ps : List (ETree L × ETree L)) (s : LSt L)
    (acc : List (Node L × Node L)) (a : Nat) (rest : List (Node L × Nat)) (ks : List (Option (Node L)))
    (hs : s.docStack = (.map acc, a) :: rest) (hk : s.keyStack = none :: ks) :
    fold eqv s (flattenPairs ps) =
      .ok { s with docStack := (.map (denotePairs eqv s.anchors acc ps).1, a) :: rest,
                   anchors := (denotePairs eqv s.anchors acc ps).2 } := by
  cases ps with
  | nil => simp [flattenPairs, fold, denotePairs, ← hs]
  | cons p ps =>
    obtain ⟨k, v⟩ := p
    simp only [flattenPairs]
    rw [fold_append, fold_append, fold_tree eqv k s]
    simp only [place, hs, hk]
    rw [fold_tree eqv v]
    simp only [place]
    have := fold_pairs eqv ps
      { s with anchors := (denote eqv (denote eqv s.anchors k).2 v).2,
               docStack := (.map (mapInsert eqv (denote eqv s.anchors k).1
                   (denote eqv (denote eqv s.anchors k).2 v).1 acc), a) :: rest,
               keyStack := none :: ks }
      _ a rest ks rfl rfl
    rw [this]
    simp [denotePairs]
end

end ProtoL
