-- Root of the `SaphyrModel` library: executable model, specifications and proofs.
import SaphyrModel.Parser
import SaphyrModel.Parser2
import SaphyrModel.Grammar
import SaphyrModel.Sim
import SaphyrModel.Loader
import SaphyrModel.Resolve
import SaphyrModel.Emitter
import SaphyrModel.Sc.Basic
import SaphyrModel.Sc.State
import SaphyrModel.Sc.Scan1
import SaphyrModel.Sc.Scan2
import SaphyrModel.Sc.Scan3
import SaphyrModel.Sc.Frame
import SaphyrModel.Sc.Inv
import SaphyrModel.Sc.Struct
import SaphyrModel.Sc.Frames2
