//! `impl_run`: executes the real saphyr code for the /verif line protocol.
//!
//! One request per input line, one canonical response line per request. Every string argument is
//! hex-encoded (6 hex digits per Unicode scalar value); bytes use 2 hex digits.
#![allow(clippy::all)]

mod inputs;
mod tree;

use inputs::{CountingInput, RingInput};
use saphyr::{
    LoadableYamlNode, MarkedYaml, MarkedYamlOwned, Scalar, ScalarOwned, Yaml, YamlEmitter,
    YamlLoader, YamlOwned,
};
use saphyr_parser::verif::{Scanner, Token, TokenType};
use saphyr_parser::{
    BufferedInput, Event, Input, Marker, Parser, ScalarStyle, ScanError, Span,
    SpannedEventReceiver, StrInput, Tag,
};
use std::io::{BufRead, Write};

pub fn hex(s: &str) -> String {
    let mut o = String::with_capacity(s.len() * 6);
    for c in s.chars() {
        o.push_str(&format!("{:06x}", c as u32));
    }
    o
}
pub fn unhex(s: &str) -> String {
    (0..s.len() / 6)
        .map(|i| char::from_u32(u32::from_str_radix(&s[i * 6..i * 6 + 6], 16).unwrap()).unwrap())
        .collect()
}
pub fn unhex_bytes(s: &str) -> Vec<u8> {
    (0..s.len() / 2)
        .map(|i| u8::from_str_radix(&s[i * 2..i * 2 + 2], 16).unwrap())
        .collect()
}
pub fn mk(m: &Marker) -> String {
    format!("{},{},{}", m.index(), m.line(), m.col())
}
pub fn sp(s: &Span) -> String {
    format!("{}-{}", mk(&s.start), mk(&s.end))
}
pub fn st(s: ScalarStyle) -> &'static str {
    match s {
        ScalarStyle::Plain => "P",
        ScalarStyle::SingleQuoted => "S",
        ScalarStyle::DoubleQuoted => "D",
        ScalarStyle::Literal => "L",
        ScalarStyle::Folded => "F",
    }
}
pub fn unst(s: &str) -> ScalarStyle {
    match s {
        "P" => ScalarStyle::Plain,
        "S" => ScalarStyle::SingleQuoted,
        "D" => ScalarStyle::DoubleQuoted,
        "L" => ScalarStyle::Literal,
        _ => ScalarStyle::Folded,
    }
}
pub fn tg(t: &Option<Tag>) -> String {
    match t {
        None => "-".into(),
        Some(t) => format!("{}!{}", hex(&t.handle), hex(&t.suffix)),
    }
}
pub fn untg(s: &str) -> Option<Tag> {
    if s == "-" {
        None
    } else {
        let (h, x) = s.split_once('!').unwrap();
        Some(Tag { handle: unhex(h), suffix: unhex(x) })
    }
}
fn err(e: &ScanError) -> String {
    format!("ERR {} {}", mk(e.marker()), hex(e.info()))
}

fn tok(t: &Token) -> String {
    let p = match &t.1 {
        TokenType::StreamStart(_) => "SS".into(),
        TokenType::StreamEnd => "SE".into(),
        TokenType::VersionDirective(a, b) => format!("VD:{a}.{b}"),
        TokenType::TagDirective(h, p) => format!("TD:{}:{}", hex(h), hex(p)),
        TokenType::DocumentStart => "DS".into(),
        TokenType::DocumentEnd => "DE".into(),
        TokenType::BlockSequenceStart => "BSS".into(),
        TokenType::BlockMappingStart => "BMS".into(),
        TokenType::BlockEnd => "BE".into(),
        TokenType::FlowSequenceStart => "FSS".into(),
        TokenType::FlowSequenceEnd => "FSE".into(),
        TokenType::FlowMappingStart => "FMS".into(),
        TokenType::FlowMappingEnd => "FME".into(),
        TokenType::BlockEntry => "BEN".into(),
        TokenType::FlowEntry => "FEN".into(),
        TokenType::Key => "K".into(),
        TokenType::Value => "V".into(),
        TokenType::Alias(n) => format!("AL:{}", hex(n)),
        TokenType::Anchor(n) => format!("AN:{}", hex(n)),
        TokenType::Tag(h, s) => format!("TG:{}:{}", hex(h), hex(s)),
        TokenType::Scalar(s, v) => format!("SC:{}:{}", st(*s), hex(v)),
    };
    format!("{p}@{}", sp(&t.0))
}

pub fn ev(e: &Event, s: &Span) -> String {
    let p = match e {
        Event::StreamStart => "SS".into(),
        Event::StreamEnd => "SE".into(),
        Event::DocumentStart(b) => format!("DS:{b}"),
        Event::DocumentEnd => "DE".into(),
        Event::Alias(i) => format!("AL:{i}"),
        Event::Scalar(v, s, a, t) => format!("SC:{}:{a}:{}:{}", st(*s), tg(t), hex(v)),
        Event::SequenceStart(a, t) => format!("SQ:{a}:{}", tg(t)),
        Event::SequenceEnd => "SQE".into(),
        Event::MappingStart(a, t) => format!("MP:{a}:{}", tg(t)),
        Event::MappingEnd => "MPE".into(),
        Event::Nothing => "NOTHING".into(),
    };
    format!("{p}@{}", sp(s))
}

const MAX_ITEMS: usize = 4_000_000;

/// C01 promises work linear in the input: a run that delivers more items than this has left the bound
/// (and would otherwise fill the memory of the machine)
fn item_cap(text_chars: usize) -> usize {
    (64 * text_chars + 4096).min(MAX_ITEMS)
}
thread_local! { static CAP: std::cell::Cell<usize> = const { std::cell::Cell::new(MAX_ITEMS) }; }
fn cap() -> usize { CAP.with(|c| c.get()) }

fn run_tok<I: Input>(mut sc: Scanner<'_, I>) -> String {
    let mut out = vec![];
    while let Some(t) = sc.next() {
        out.push(tok(&t));
        if out.len() > cap() {
            return format!("{} ; RUNAWAY", out.len());
        }
    }
    let tail = match sc.get_error() {
        None => format!("DONE {}", mk(&sc.mark())),
        Some(e) => err(&e),
    };
    format!("{} ; {tail}", out.join(" "))
}

fn run_evt<I: Input>(p: Parser<I>) -> String {
    let mut out = vec![];
    let mut tail = "DONE".to_string();
    for r in p {
        match r {
            Ok((e, s)) => {
                out.push(ev(&e, &s));
                if out.len() > cap() {
                    return format!("{} ; RUNAWAY", out.len());
                }
            }
            Err(e) => {
                tail = err(&e);
                break;
            }
        }
    }
    format!("{} ; {tail}", out.join(" "))
}

/// Dispatch on the input kind: str | buf | ring8 | ring16 | ring64 | ring128.
macro_rules! with_input {
    ($kind:expr, $text:expr, |$inp:ident| $body:expr) => {
        match $kind {
            "str" => {
                let $inp = StrInput::new($text);
                $body
            }
            "buf" => {
                let $inp = BufferedInput::new($text.chars());
                $body
            }
            "ring8" => {
                let $inp = RingInput::<8, _>::new($text.chars());
                $body
            }
            "ring16" => {
                let $inp = RingInput::<16, _>::new($text.chars());
                $body
            }
            "ring64" => {
                let $inp = RingInput::<64, _>::new($text.chars());
                $body
            }
            "ring128" => {
                let $inp = RingInput::<128, _>::new($text.chars());
                $body
            }
            _ => "bad-kind".to_string(),
        }
    };
}

struct Recv {
    out: Vec<String>,
    saw_end: bool,
}
impl<'a> SpannedEventReceiver<'a> for Recv {
    fn on_event(&mut self, e: Event<'a>, s: Span) {
        if matches!(e, Event::StreamEnd) {
            self.saw_end = true;
        }
        self.out.push(ev(&e, &s));
        if self.out.len() > cap() {
            // unwinds out of `Parser::load`; reported as `PANIC RUNAWAY …` by the request loop
            panic!("RUNAWAY push interface delivered more than {} events", cap());
        }
    }
}

/// `psh <kind> <multi> <text>`: the push interface. With multi=0, `load` is called repeatedly until a
/// call delivers StreamEnd or fails; call boundaries are printed as `/`.
fn run_psh<I: Input>(mut p: Parser<I>, multi: bool) -> String {
    let mut r = Recv { out: vec![], saw_end: false };
    let mut tail = "DONE".to_string();
    let mut calls = 0usize;
    loop {
        calls += 1;
        match p.load(&mut r, multi) {
            Ok(()) => {}
            Err(e) => {
                tail = err(&e);
                break;
            }
        }
        if r.saw_end || calls > 100_000 {
            break;
        }
        r.out.push("/".into());
    }
    format!("{} ; {tail}", r.out.join(" "))
}

/// `api <text> <calls>`: a history of peek (p) / next (n) calls on `Parser::new_from_str`.
/// The history is cut after the first call that returns an error.
fn run_api(text: &str, calls: &str) -> String {
    let mut p = Parser::new_from_str(text);
    let mut out = vec![];
    for c in calls.chars() {
        let r = match c {
            'p' => match p.peek() {
                None => "P:-".to_string(),
                Some(Ok((e, s))) => format!("P:{}", ev(e, s)),
                Some(Err(e)) => format!("P:E:{}:{}", mk(e.marker()), hex(e.info())),
            },
            _ => match p.next_event() {
                None => "N:-".to_string(),
                Some(Ok((e, s))) => format!("N:{}", ev(&e, &s)),
                Some(Err(e)) => format!("N:E:{}:{}", mk(e.marker()), hex(e.info())),
            },
        };
        let is_err = r.as_bytes()[2] == b'E' && r.as_bytes().get(3) == Some(&b':');
        out.push(r);
        if is_err {
            break;
        }
    }
    out.join(" ")
}

fn load_docs<'a, N>(text: &'a str, mode: &str) -> Result<Vec<N>, ScanError>
where
    N: LoadableYamlNode<'a>,
{
    if mode == "e" {
        N::load_from_str(text)
    } else {
        let mut parser = Parser::new_from_str(text);
        let mut loader = YamlLoader::<N>::default();
        loader.early_parse(false);
        parser.load(&mut loader, true)?;
        Ok(loader.into_documents())
    }
}

/// `lod <nodekind> <mode> <text>`: nodekind y|yo|m|mo, mode e (eager) | l (lazy) | r (lazy then
/// parse_representation_recursive on every document).
fn run_lod(nk: &str, mode: &str, text: &str) -> String {
    use tree::Dump;
    // the loaders cannot be stopped from outside: look first whether the event stream ends
    if Parser::new_from_str(text).take_while(|r| r.is_ok()).take(cap() + 1).count() > cap() {
        return "RUNAWAY".into();
    }
    fn fin<N: Dump>(r: Result<Vec<N>, ScanError>) -> String {
        match r {
            Ok(docs) => {
                let v: Vec<String> = docs.iter().map(|d| d.dump()).collect();
                format!("OK {}", v.join(" / "))
            }
            Err(e) => err(&e),
        }
    }
    match nk {
        "y" => {
            let mut r = load_docs::<Yaml>(text, mode);
            if mode == "r" {
                if let Ok(d) = r.as_mut() {
                    for x in d.iter_mut() {
                        x.parse_representation_recursive();
                    }
                }
            }
            fin(r)
        }
        "yo" => {
            let mut r = load_docs::<YamlOwned>(text, mode);
            if mode == "r" {
                if let Ok(d) = r.as_mut() {
                    for x in d.iter_mut() {
                        x.parse_representation_recursive();
                    }
                }
            }
            fin(r)
        }
        "m" => {
            let mut r = load_docs::<MarkedYaml>(text, mode);
            if mode == "r" {
                if let Ok(d) = r.as_mut() {
                    for x in d.iter_mut() {
                        x.data.parse_representation_recursive();
                    }
                }
            }
            fin(r)
        }
        "mo" => {
            let mut r = load_docs::<MarkedYamlOwned>(text, mode);
            if mode == "r" {
                if let Ok(d) = r.as_mut() {
                    for x in d.iter_mut() {
                        x.data.parse_representation_recursive();
                    }
                }
            }
            fin(r)
        }
        _ => "bad-kind".into(),
    }
}

fn scalar_str(s: &Scalar) -> String {
    match s {
        Scalar::Null => "N".into(),
        Scalar::Boolean(b) => format!("B:{b}"),
        Scalar::Integer(i) => format!("I:{i}"),
        Scalar::FloatingPoint(f) => format!("D:{}", tree::fbits(f.0)),
        Scalar::String(v) => format!("S:{}", hex(v)),
    }
}

/// `res <style> <tag> <text>`
fn run_res(style: &str, tag: &str, text: &str) -> String {
    let style = unst(style);
    let tag = untg(tag);
    let b = Scalar::parse_from_cow_and_metadata(text.into(), style, tag.as_ref());
    let o = ScalarOwned::parse_from_cow_and_metadata(text.into(), style, tag.as_ref());
    let bs = b.as_ref().map_or("BAD".to_string(), scalar_str);
    let os = o.as_ref().map_or("BAD".to_string(), |o| scalar_str(&o.as_scalar()));
    // borrowed -> owned -> as_scalar round trip
    let rt = b.clone().map(|b| {
        let owned = b.clone().into_owned();
        owned.as_scalar() == b
    });
    let mut out = bs.clone();
    if os != bs {
        out.push_str(&format!(" OWNDIFF:{os}"));
    }
    if rt == Some(false) {
        out.push_str(" RTDIFF");
    }
    out
}

/// `emt <compact> <multiline> <tree>`: emit, reload, re-emit.
fn run_emt(c: &str, m: &str, toks: &[&str]) -> String {
    let mut it = toks.iter();
    let y = match tree::parse_yaml(&mut it) {
        Some(y) => y,
        None => return "bad-tree".into(),
    };
    let emit = |y: &Yaml| -> Result<String, String> {
        let mut out = String::new();
        let mut e = YamlEmitter::new(&mut out);
        e.compact(c == "1");
        e.multiline_strings(m == "1");
        e.dump(y).map_err(|e| format!("{e:?}"))?;
        Ok(out)
    };
    let out = match emit(&y) {
        Ok(o) => o,
        Err(e) => return format!("EMITERR {}", hex(&e)),
    };
    use tree::Dump;
    let back = match Yaml::load_from_str(&out) {
        Err(e) => format!("LOADERR:{}:{}", mk(e.marker()), hex(e.info())),
        Ok(d) => {
            if d.len() == 1 && d[0] == y {
                match emit(&d[0]) {
                    Ok(o2) if o2 == out => "RT".to_string(),
                    Ok(o2) => format!("NIDEM:{}", hex(&o2)),
                    Err(_) => "NIDEM:err".into(),
                }
            } else {
                let v: Vec<String> = d.iter().map(|x| x.dump().replace(' ', ",")).collect();
                format!("NE:{}", v.join("/"))
            }
        }
    };
    format!("{} {back}", hex(&out))
}

/// `dec <trap> <bytes>`: YamlDecoder::decode, plus the loop trace length from the hook.
fn run_dec(trap: &str, bytes: &[u8]) -> String {
    use saphyr::{YAMLDecodingTrap, YamlDecoder};
    use tree::Dump;
    // the callback records what it was shown: the bytes of the malformed sequence, read from the buffer
    // "starting at the malformation" (so a wrong buffer or length shows in the decoded text)
    fn cb(
        malformed_len: u8,
        _bytes_after: u8,
        input: &[u8],
        output: &mut String,
    ) -> std::ops::ControlFlow<std::borrow::Cow<'static, str>> {
        output.push('<');
        for b in input.iter().take(malformed_len as usize) {
            output.push_str(&format!("{b:02x}"));
        }
        output.push('>');
        std::ops::ControlFlow::Continue(())
    }
    let trap = match trap {
        "s" => YAMLDecodingTrap::Strict,
        "i" => YAMLDecodingTrap::Ignore,
        "r" => YAMLDecodingTrap::Replace,
        _ => YAMLDecodingTrap::Call(cb),
    };
    let _ = saphyr::verif::take_trace();
    let mut d = YamlDecoder::read(bytes);
    d.encoding_trap(trap);
    let r = d.decode();
    let trace = saphyr::verif::take_trace();
    let enc = saphyr::verif::detect_utf16_endianness(bytes);
    let body = match r {
        Ok(docs) => {
            let v: Vec<String> = docs.iter().map(|d| d.dump()).collect();
            format!("OK {}", v.join(" / "))
        }
        Err(saphyr::verif::LoadError::Decode(m)) => {
            if m.starts_with("verif: iteration limit") {
                "HANG".to_string()
            } else {
                format!("DECERR {}", hex(&m))
            }
        }
        Err(saphyr::verif::LoadError::Scan(e)) => err(&e),
        Err(saphyr::verif::LoadError::IO(e)) => format!("IOERR {}", hex(&e.to_string())),
    };
    format!("{body} ; iters={} sniff={enc}", trace.len())
}

fn run_cls(cp: u32) -> String {
    use saphyr_parser::verif as ct;
    let c = match char::from_u32(cp) {
        Some(c) => c,
        None => return "nochar".into(),
    };
    let b = |x: bool| if x { '1' } else { '0' };
    let mut s = String::new();
    for v in [
        ct::is_z(c),
        ct::is_break(c),
        ct::is_breakz(c),
        ct::is_blank(c),
        ct::is_blank_or_breakz(c),
        ct::is_digit(c),
        ct::is_alpha(c),
        ct::is_hex(c),
        ct::is_flow(c),
        ct::is_bom(c),
        ct::is_yaml_non_break(c),
        ct::is_yaml_non_space(c),
        ct::is_anchor_char(c),
        ct::is_word_char(c),
        ct::is_uri_char(c),
        ct::is_tag_char(c),
    ] {
        s.push(b(v));
    }
    let h = if ct::is_hex(c) { ct::as_hex(c).to_string() } else { "-".into() };
    format!("{s} {h}")
}

/// `cnt <kind> <text>`: number of `Input` trait-method calls made while iterating all events.
fn run_cnt(kind: &str, text: &str) -> String {
    let counter = std::rc::Rc::new(std::cell::Cell::new(0u64));
    let n_ev = match kind {
        "str" => {
            let p = Parser::new(CountingInput::new(StrInput::new(text), counter.clone()));
            p.take_while(|r| r.is_ok()).take(cap() + 1).count()
        }
        _ => {
            let p = Parser::new(CountingInput::new(BufferedInput::new(text.chars()), counter.clone()));
            p.take_while(|r| r.is_ok()).take(cap() + 1).count()
        }
    };
    format!("{} {} {}", counter.get(), text.chars().count(), n_ev)
}

fn handle(line: &str) -> String {
    let f: Vec<&str> = line.trim_end_matches(['\n', '\r']).split(' ').collect();
    let arg = |i: usize| -> &str { f.get(i).copied().unwrap_or("") };
    // texts travel as 6 hex digits per character: the longest argument bounds the input length
    let longest = f.iter().map(|x| x.len()).max().unwrap_or(0);
    CAP.with(|c| c.set(item_cap(longest / 6 + 1)));
    match arg(0) {
        "cls" => run_cls(arg(1).parse().unwrap_or(0)),
        "tok" => {
            let text = unhex(arg(3));
            with_input!(arg(1), &text, |i| run_tok(Scanner::new(i)))
        }
        "evt" => {
            let text = unhex(arg(4));
            let keep = arg(3) == "1";
            with_input!(arg(1), &text, |i| run_evt(Parser::new(i).keep_tags(keep)))
        }
        "psh" => {
            let text = unhex(arg(3));
            let multi = arg(2) == "1";
            with_input!(arg(1), &text, |i| run_psh(Parser::new(i), multi))
        }
        "api" => run_api(&unhex(arg(1)), arg(2)),
        "lod" => run_lod(arg(1), arg(2), &unhex(arg(3))),
        "res" => run_res(arg(1), arg(2), &unhex(arg(3))),
        "esc" => hex(&saphyr::verif::escape_str(&unhex(arg(1)))),
        "nq" => saphyr::verif::need_quotes(&unhex(arg(1))).to_string(),
        "lit" => saphyr::verif::is_valid_literal_block_scalar(&unhex(arg(1))).to_string(),
        "emt" => run_emt(arg(1), arg(2), &f[3.min(f.len())..]),
        "dec" => run_dec(arg(1), &unhex_bytes(arg(2))),
        // the encoding sniffer alone (what `decode` falls back to when there is no BOM)
        "snf" => format!("sniff={}", saphyr::verif::detect_utf16_endianness(&unhex_bytes(arg(1)))),
        "cnt" => run_cnt(arg(1), &unhex(arg(2))),
        "erd" => {
            // first error of plain iteration: Display text, marker, info
            let text = unhex(arg(1));
            let mut out = "none".to_string();
            for r in Parser::new_from_str(&text) {
                if let Err(e) = r {
                    out = format!("{} {} {}", hex(&e.to_string()), mk(e.marker()), hex(e.info()));
                    break;
                }
            }
            out
        }
        "get" => tree::run_get(&f[1.min(f.len())..]),
        "heq" => tree::run_heq(&f[1.min(f.len())..]),
        "fdisp" => {
            // Display text of the float with the given bits (the emitter's external dependency)
            match u64::from_str_radix(arg(1), 16) {
                Ok(b) => hex(&format!("{}", f64::from_bits(b))),
                Err(_) => "bad".into(),
            }
        }
        "f64" => {
            // helper: parse a decimal text with Rust's f64::from_str and print canonical bits
            match unhex(arg(1)).parse::<f64>() {
                Ok(v) => tree::fbits(v),
                Err(_) => "none".into(),
            }
        }
        _ => "bad-op".into(),
    }
}

fn main() {
    let args: Vec<String> = std::env::args().collect();
    if args.len() >= 2 && args[1] == "--deep" {
        // `--deep <api> <shape> <depth>`: run one deep-nesting scenario in this process (C11); the
        // exit status / abort signal is the observation.
        std::process::exit(tree::run_deep(&args[2], &args[3], args[4].parse().unwrap()));
    }
    std::panic::set_hook(Box::new(|_| {}));
    // watchdog: a request that does not return within the deadline ends the process (status 86); every answered
    // request has been flushed, so the parent knows which one it was (C01: "never … spins")
    static STARTED: std::sync::atomic::AtomicU64 = std::sync::atomic::AtomicU64::new(0);
    let epoch = std::time::Instant::now();
    std::thread::spawn(move || loop {
        std::thread::sleep(std::time::Duration::from_millis(250));
        let st = STARTED.load(std::sync::atomic::Ordering::Relaxed);
        if st != 0 && epoch.elapsed().as_millis() as u64 > st + 15_000 {
            std::process::exit(86);
        }
    });
    let stdin = std::io::stdin();
    let stdout = std::io::stdout();
    let mut o = std::io::BufWriter::with_capacity(1 << 16, stdout.lock());
    for line in stdin.lock().lines() {
        let line = line.unwrap();
        STARTED.store(epoch.elapsed().as_millis() as u64 + 1, std::sync::atomic::Ordering::Relaxed);
        let r = std::panic::catch_unwind(|| handle(&line));
        STARTED.store(0, std::sync::atomic::Ordering::Relaxed);
        match r {
            Ok(s) => writeln!(o, "{s}").unwrap(),
            Err(_) => writeln!(o, "PANIC").unwrap(),
        }
        // answered requests must be visible if the next one never returns
        o.flush().unwrap();
    }
}
