//! Canonical dumps of the four node types, a prefix-notation tree parser, lookups (C20) and the
//! deep-nesting scenarios (C11).

use crate::{hex, sp, st, tg, unhex};
use saphyr::{
    LoadableYamlNode, Mapping, MarkedYaml, MarkedYamlOwned, Scalar, ScalarOwned, Yaml, YamlData,
    YamlDataOwned, YamlEmitter, YamlOwned,
};
use std::hash::{Hash, Hasher};

pub fn fbits(f: f64) -> String {
    let b = if f.is_nan() { 0x7ff8_0000_0000_0000u64 } else { f.to_bits() };
    format!("{b:016x}")
}

fn scalar(s: &Scalar) -> String {
    match s {
        Scalar::Null => "N".into(),
        Scalar::Boolean(true) => "T".into(),
        Scalar::Boolean(false) => "F".into(),
        Scalar::Integer(i) => format!("I:{i}"),
        Scalar::FloatingPoint(f) => format!("D:{}", fbits(f.0)),
        Scalar::String(v) => format!("S:{}", hex(v)),
    }
}
fn scalar_owned(s: &ScalarOwned) -> String {
    scalar(&s.as_scalar())
}

pub trait Dump {
    fn dump_into(&self, out: &mut Vec<String>);
    fn dump(&self) -> String {
        let mut v = vec![];
        self.dump_into(&mut v);
        v.join(" ")
    }
}

impl Dump for Yaml<'_> {
    fn dump_into(&self, out: &mut Vec<String>) {
        match self {
            Yaml::Representation(v, s, t) => out.push(format!("R:{}:{}:{}", st(*s), tg(t), hex(v))),
            Yaml::Value(s) => out.push(scalar(s)),
            Yaml::Sequence(v) => {
                out.push(format!("Q:{}", v.len()));
                for x in v {
                    x.dump_into(out);
                }
            }
            Yaml::Mapping(m) => {
                out.push(format!("M:{}", m.len()));
                for (k, v) in m {
                    k.dump_into(out);
                    v.dump_into(out);
                }
            }
            Yaml::Alias(n) => out.push(format!("A:{n}")),
            Yaml::BadValue => out.push("B".into()),
        }
    }
}
impl Dump for YamlOwned {
    fn dump_into(&self, out: &mut Vec<String>) {
        match self {
            YamlOwned::Representation(v, s, t) => {
                out.push(format!("R:{}:{}:{}", st(*s), tg(t), hex(v)))
            }
            YamlOwned::Value(s) => out.push(scalar_owned(s)),
            YamlOwned::Sequence(v) => {
                out.push(format!("Q:{}", v.len()));
                for x in v {
                    x.dump_into(out);
                }
            }
            YamlOwned::Mapping(m) => {
                out.push(format!("M:{}", m.len()));
                for (k, v) in m {
                    k.dump_into(out);
                    v.dump_into(out);
                }
            }
            YamlOwned::Alias(n) => out.push(format!("A:{n}")),
            YamlOwned::BadValue => out.push("B".into()),
        }
    }
}
impl Dump for MarkedYaml<'_> {
    fn dump_into(&self, out: &mut Vec<String>) {
        let s = sp(&self.span);
        match &self.data {
            YamlData::Representation(v, y, t) => {
                out.push(format!("R:{}:{}:{}@{s}", st(*y), tg(t), hex(v)))
            }
            YamlData::Value(x) => out.push(format!("{}@{s}", scalar(x))),
            YamlData::Sequence(v) => {
                out.push(format!("Q:{}@{s}", v.len()));
                for x in v {
                    x.dump_into(out);
                }
            }
            YamlData::Mapping(m) => {
                out.push(format!("M:{}@{s}", m.len()));
                for (k, v) in m {
                    k.dump_into(out);
                    v.dump_into(out);
                }
            }
            YamlData::Alias(n) => out.push(format!("A:{n}@{s}")),
            YamlData::BadValue => out.push(format!("B@{s}")),
        }
    }
}
impl Dump for MarkedYamlOwned {
    fn dump_into(&self, out: &mut Vec<String>) {
        let s = sp(&self.span);
        match &self.data {
            YamlDataOwned::Representation(v, y, t) => {
                out.push(format!("R:{}:{}:{}@{s}", st(*y), tg(t), hex(v)))
            }
            YamlDataOwned::Value(x) => out.push(format!("{}@{s}", scalar_owned(x))),
            YamlDataOwned::Sequence(v) => {
                out.push(format!("Q:{}@{s}", v.len()));
                for x in v {
                    x.dump_into(out);
                }
            }
            YamlDataOwned::Mapping(m) => {
                out.push(format!("M:{}@{s}", m.len()));
                for (k, v) in m {
                    k.dump_into(out);
                    v.dump_into(out);
                }
            }
            YamlDataOwned::Alias(n) => out.push(format!("A:{n}@{s}")),
            YamlDataOwned::BadValue => out.push(format!("B@{s}")),
        }
    }
}

/// Prefix-notation tree: N T F I:<i> D:<bits> S:<hex> B Q:<n> … M:<n> k v …
pub fn parse_yaml<'a>(t: &mut std::slice::Iter<'a, &'a str>) -> Option<Yaml<'static>> {
    let tok = *t.next()?;
    Some(if tok == "N" {
        Yaml::Value(Scalar::Null)
    } else if tok == "T" {
        Yaml::Value(Scalar::Boolean(true))
    } else if tok == "F" {
        Yaml::Value(Scalar::Boolean(false))
    } else if tok == "B" {
        Yaml::BadValue
    } else if let Some(i) = tok.strip_prefix("I:") {
        Yaml::Value(Scalar::Integer(i.parse().ok()?))
    } else if let Some(b) = tok.strip_prefix("D:") {
        // D:<bits>[:<display text, for the model only>]
        let b = b.split(':').next()?;
        Yaml::Value(Scalar::FloatingPoint(f64::from_bits(u64::from_str_radix(b, 16).ok()?).into()))
    } else if let Some(h) = tok.strip_prefix("S:") {
        Yaml::Value(Scalar::String(unhex(h).into()))
    } else if let Some(n) = tok.strip_prefix("Q:") {
        let n: usize = n.parse().ok()?;
        let mut v = Vec::with_capacity(n.min(1024));
        for _ in 0..n {
            v.push(parse_yaml(t)?);
        }
        Yaml::Sequence(v)
    } else if let Some(n) = tok.strip_prefix("M:") {
        let n: usize = n.parse().ok()?;
        let mut m = Mapping::new();
        for _ in 0..n {
            let k = parse_yaml(t)?;
            let v = parse_yaml(t)?;
            m.insert(k, v);
        }
        Yaml::Mapping(m)
    } else {
        return None;
    })
}

/// A `Hasher` that records the stream of writes, to compare hash streams rather than hash values.
#[derive(Default)]
struct Rec(Vec<u8>);
impl Hasher for Rec {
    fn finish(&self) -> u64 {
        0
    }
    fn write(&mut self, b: &[u8]) {
        self.0.push(0xfe);
        self.0.extend_from_slice(b);
    }
}
fn hstream<T: Hash>(t: &T) -> String {
    let mut r = Rec::default();
    t.hash(&mut r);
    let mut h = std::collections::hash_map::DefaultHasher::new();
    r.0.hash(&mut h);
    format!("{:016x}", h.finish())
}

fn opt<N: Dump>(o: Option<&N>) -> String {
    o.map_or("-".to_string(), |n| n.dump().replace(' ', ";"))
}

macro_rules! lookups {
    ($doc:expr, $probe:expr, $idx:expr, $mk:expr) => {{
        let d = $doc;
        let probe: &str = $probe;
        let get = opt(d.as_mapping_get(probe));
        let contains = d.contains_mapping_key(probe);
        let index = match std::panic::catch_unwind(std::panic::AssertUnwindSafe(|| opt(Some(&d[probe])))) {
            Ok(s) => s,
            Err(_) => "PANIC".to_string(),
        };
        let explicit = match d.as_mapping() {
            Some(m) => opt(m.get(&$mk(probe))),
            None => "-".to_string(),
        };
        // integer indexing
        let iget = match $idx {
            Some(i) => {
                let by_index = match std::panic::catch_unwind(std::panic::AssertUnwindSafe(|| opt(Some(&d[i])))) {
                    Ok(s) => s,
                    Err(_) => "PANIC".to_string(),
                };
                let by_get = if d.is_sequence() { opt(d.as_sequence_get(i)) } else { "-".into() };
                format!("{by_index}|{by_get}")
            }
            None => "-".into(),
        };
        format!("get={get} contains={contains} index={index} explicit={explicit} int={iget}")
    }};
}

/// `get <nodekind> <mode> <probe> <intidx|-> <text>`: the four string lookups and integer indexing
/// on the first document of `text`, plus key hash-stream/equality consistency.
pub fn run_get(f: &[&str]) -> String {
    if f.len() < 5 {
        return "bad-op".into();
    }
    let (nk, mode, probe, idx, text) = (f[0], f[1], unhex(f[2]), f[3], unhex(f[4]));
    let idx: Option<usize> = idx.parse().ok();
    let lazy = mode == "l";
    macro_rules! load {
        ($t:ty) => {{
            let r = if lazy {
                let mut parser = saphyr_parser::Parser::new_from_str(&text);
                let mut loader = saphyr::YamlLoader::<$t>::default();
                loader.early_parse(false);
                parser.load(&mut loader, true).map(|_| loader.into_documents())
            } else {
                <$t>::load_from_str(&text)
            };
            match r {
                Ok(mut d) if !d.is_empty() => d.remove(0),
                Ok(_) => return "NODOC".into(),
                Err(_) => return "LOADERR".into(),
            }
        }};
    }
    match nk {
        "y" => {
            let d = load!(Yaml);
            let keys = key_consistency(&d);
            format!(
                "{} {keys}",
                lookups!(&d, &probe, idx, |p: &str| Yaml::Value(Scalar::String(p.to_string().into())))
            )
        }
        "yo" => {
            let d = load!(YamlOwned);
            let keys = key_consistency_owned(&d);
            format!(
                "{} {keys}",
                lookups!(&d, &probe, idx, |p: &str| YamlOwned::Value(ScalarOwned::String(p.to_string())))
            )
        }
        "m" => {
            let d = load!(MarkedYaml);
            format!(
                "{} keys=-",
                lookups!(&d.data, &probe, idx, |p: &str| MarkedYaml {
                    span: saphyr_parser::Span::default(),
                    data: YamlData::Value(Scalar::String(p.to_string().into())),
                })
            )
        }
        "mo" => {
            let d = load!(MarkedYamlOwned);
            format!(
                "{} keys=-",
                lookups!(&d.data, &probe, idx, |p: &str| MarkedYamlOwned {
                    span: saphyr_parser::Span::default(),
                    data: YamlDataOwned::Value(ScalarOwned::String(p.to_string())),
                })
            )
        }
        _ => "bad-kind".into(),
    }
}

/// `heq <nodekind> <mode> <textA> <textB>`: every node (at any depth, keys included) of the first document
/// of A against every node of the first document of B: equal ⇒ equal hash stream; and every mapping of A
/// asked for every key of B: found by `get`/`contains_key` exactly when some key compares equal.
pub fn run_heq(f: &[&str]) -> String {
    if f.len() < 4 {
        return "bad-op".into();
    }
    let (nk, mode, ta, tb) = (f[0], f[1], unhex(f[2]), unhex(f[3]));
    let lazy = mode == "l";
    macro_rules! go {
        ($t:ty, $nodes:ident, $x:ident => $asmap:expr) => {{
            macro_rules! load1 {
                ($text:expr) => {{
                    let r = if lazy {
                        let mut parser = saphyr_parser::Parser::new_from_str($text);
                        let mut loader = saphyr::YamlLoader::<$t>::default();
                        loader.early_parse(false);
                        parser.load(&mut loader, true).map(|_| loader.into_documents())
                    } else {
                        <$t>::load_from_str($text)
                    };
                    match r {
                        Ok(mut d) if !d.is_empty() => d.remove(0),
                        _ => return "LOADERR".into(),
                    }
                }};
            }
            let a = load1!(&ta);
            let b = load1!(&tb);
            let mut na: Vec<&$t> = vec![];
            let mut nb: Vec<&$t> = vec![];
            $nodes(&a, &mut na);
            $nodes(&b, &mut nb);
            let mut eqs = 0usize;
            for x in &na {
                for y in &nb {
                    if x == y {
                        eqs += 1;
                        if hstream(*x) != hstream(*y) {
                            return format!("EQHASHMISMATCH {} {}", x.dump().replace(' ', ";"), y.dump().replace(' ', ";"));
                        }
                    }
                }
            }
            for xx in &na {
                let $x = *xx;
                let x = xx;
                if let Some(m) = $asmap {
                    for y in &nb {
                        let want = m.keys().any(|k| k == *y);
                        if m.get(*y).is_some() != want || m.contains_key(*y) != want {
                            return format!("LOOKUPMISMATCH {} {}", x.dump().replace(' ', ";"), y.dump().replace(' ', ";"));
                        }
                    }
                }
            }
            format!("ok {eqs}")
        }};
    }
    fn nodes_y<'a, 'b>(n: &'b Yaml<'a>, out: &mut Vec<&'b Yaml<'a>>) {
        out.push(n);
        match n {
            Yaml::Sequence(v) => v.iter().for_each(|x| nodes_y(x, out)),
            Yaml::Mapping(m) => m.iter().for_each(|(k, v)| {
                nodes_y(k, out);
                nodes_y(v, out)
            }),
            _ => {}
        }
    }
    fn nodes_yo<'b>(n: &'b YamlOwned, out: &mut Vec<&'b YamlOwned>) {
        out.push(n);
        match n {
            YamlOwned::Sequence(v) => v.iter().for_each(|x| nodes_yo(x, out)),
            YamlOwned::Mapping(m) => m.iter().for_each(|(k, v)| {
                nodes_yo(k, out);
                nodes_yo(v, out)
            }),
            _ => {}
        }
    }
    fn nodes_m<'a, 'b>(n: &'b MarkedYaml<'a>, out: &mut Vec<&'b MarkedYaml<'a>>) {
        out.push(n);
        match &n.data {
            YamlData::Sequence(v) => v.iter().for_each(|x| nodes_m(x, out)),
            YamlData::Mapping(m) => m.iter().for_each(|(k, v)| {
                nodes_m(k, out);
                nodes_m(v, out)
            }),
            _ => {}
        }
    }
    match nk {
        "y" => go!(Yaml, nodes_y, n => n.as_mapping()),
        "yo" => go!(YamlOwned, nodes_yo, n => n.as_mapping()),
        "m" => go!(MarkedYaml, nodes_m, n => n.data.as_mapping()),
        _ => "bad-kind".into(),
    }
}

/// For every pair of keys of a mapping: equal ⇒ equal hash stream; and borrowed vs owned copies of
/// each key hash identically.
fn key_consistency(d: &Yaml) -> String {
    let Some(m) = d.as_mapping() else { return "keys=-".into() };
    let keys: Vec<&Yaml> = m.keys().collect();
    for a in &keys {
        // an owned deep copy must be equal and hash equally
        let o: Yaml<'static> = deep_own(a);
        if **a != o || hstream(*a) != hstream(&o) {
            return "keys=OWNMISMATCH".into();
        }
        for b in &keys {
            if a == b && hstream(*a) != hstream(*b) {
                return "keys=EQHASHMISMATCH".into();
            }
        }
    }
    "keys=ok".into()
}
fn key_consistency_owned(d: &YamlOwned) -> String {
    let Some(m) = d.as_mapping() else { return "keys=-".into() };
    let keys: Vec<&YamlOwned> = m.keys().collect();
    for a in &keys {
        for b in &keys {
            if a == b && hstream(*a) != hstream(*b) {
                return "keys=EQHASHMISMATCH".into();
            }
        }
    }
    "keys=ok".into()
}
fn deep_own(y: &Yaml) -> Yaml<'static> {
    match y {
        Yaml::Representation(v, s, t) => Yaml::Representation(v.to_string().into(), *s, t.clone()),
        Yaml::Value(Scalar::String(v)) => Yaml::Value(Scalar::String(v.to_string().into())),
        Yaml::Value(Scalar::Null) => Yaml::Value(Scalar::Null),
        Yaml::Value(Scalar::Boolean(b)) => Yaml::Value(Scalar::Boolean(*b)),
        Yaml::Value(Scalar::Integer(i)) => Yaml::Value(Scalar::Integer(*i)),
        Yaml::Value(Scalar::FloatingPoint(f)) => Yaml::Value(Scalar::FloatingPoint(*f)),
        Yaml::Sequence(v) => Yaml::Sequence(v.iter().map(deep_own).collect()),
        Yaml::Mapping(m) => Yaml::Mapping(m.iter().map(|(k, v)| (deep_own(k), deep_own(v))).collect()),
        Yaml::Alias(n) => Yaml::Alias(*n),
        Yaml::BadValue => Yaml::BadValue,
    }
}

fn deep_text(shape: &str, depth: usize) -> String {
    let mut s = String::new();
    if let Some(rest) = shape.strip_prefix("rep:") {
        // `rep:<unit hex>:<tail hex>`: the unit repeated `depth` times, then the tail
        let mut it = rest.split(':');
        let unit = crate::unhex(it.next().unwrap_or(""));
        let tail = crate::unhex(it.next().unwrap_or(""));
        let closer = crate::unhex(it.next().unwrap_or(""));
        for _ in 0..depth {
            s.push_str(&unit);
        }
        s.push_str(&tail);
        // optional third field: a closer repeated once per level (flow collections)
        for _ in 0..depth {
            s.push_str(&closer);
        }
        return s;
    }
    match shape {
        "seq" => {
            for _ in 0..depth {
                s.push_str("- ");
            }
            s.push('a');
        }
        "map" => {
            for i in 0..depth {
                for _ in 0..i {
                    s.push(' ');
                }
                s.push_str("k:\n");
            }
            for _ in 0..depth {
                s.push(' ');
            }
            s.push('a');
        }
        "key" => {
            for _ in 0..depth {
                s.push_str("? ");
            }
            s.push('a');
        }
        "fseq" => {
            for _ in 0..depth {
                s.push('[');
            }
            for _ in 0..depth {
                s.push(']');
            }
        }
        "fmap" => {
            for _ in 0..depth {
                s.push_str("{a: ");
            }
            s.push('b');
            for _ in 0..depth {
                s.push('}');
            }
        }
        _ => {
            // alternating
            for i in 0..depth {
                s.push_str(if i % 2 == 0 { "- " } else { "? " });
            }
            s.push('a');
        }
    }
    s
}

/// One deep-nesting scenario; returns the process exit code: 0 = Ok value, 3 = error value.
/// A stack overflow aborts the process (SIGABRT/SIGSEGV), which the caller observes.
pub fn run_deep(api: &str, shape: &str, depth: usize) -> i32 {
    let text = deep_text(shape, depth);
    match api {
        "iter" => {
            for r in saphyr_parser::Parser::new_from_str(&text) {
                if r.is_err() {
                    return 3;
                }
            }
            0
        }
        "load" => {
            struct Sink(usize);
            impl<'a> saphyr_parser::SpannedEventReceiver<'a> for Sink {
                fn on_event(&mut self, _: saphyr_parser::Event<'a>, _: saphyr_parser::Span) {
                    self.0 += 1;
                }
            }
            let mut p = saphyr_parser::Parser::new_from_str(&text);
            let mut s = Sink(0);
            match p.load(&mut s, true) {
                Ok(()) => 0,
                Err(_) => 3,
            }
        }
        "stack" => {
            // how much stack the scanner and parser use for this nesting: the characters are served by an iterator
            // that records the address of one of its locals each time it is called (the deepest point of every call
            // chain that reads input); printed as `STACK <bytes>`
            struct Probe<'a> {
                it: std::str::Chars<'a>,
                lowest: &'a std::cell::Cell<usize>,
            }
            impl<'a> Iterator for Probe<'a> {
                type Item = char;
                #[inline(never)]
                fn next(&mut self) -> Option<char> {
                    let here = 0u8;
                    let a = std::hint::black_box(&here) as *const u8 as usize;
                    if a < self.lowest.get() {
                        self.lowest.set(a);
                    }
                    self.it.next()
                }
            }
            let top = 0u8;
            let top_addr = std::hint::black_box(&top) as *const u8 as usize;
            let lowest = std::cell::Cell::new(top_addr);
            let mut ok = true;
            for r in saphyr_parser::Parser::new_from_iter(Probe { it: text.chars(), lowest: &lowest }) {
                if r.is_err() {
                    ok = false;
                    break;
                }
            }
            println!("STACK {}", top_addr - lowest.get());
            if ok {
                0
            } else {
                3
            }
        }
        "loaddrop" => match Yaml::load_from_str(&text) {
            Ok(d) => {
                drop(d);
                0
            }
            Err(_) => 3,
        },
        _ => {
            // emit: build the nested tree iteratively, emit it, and leak it (drop is "loaddrop"'s job)
            let mut y = Yaml::Value(Scalar::String("a".into()));
            for _ in 0..depth {
                y = Yaml::Sequence(vec![y]);
            }
            let mut out = String::new();
            let r = YamlEmitter::new(&mut out).dump(&y);
            std::mem::forget(y);
            if r.is_ok() {
                0
            } else {
                3
            }
        }
    }
}
