//! Test inputs: a contract-conforming ring-buffer input of arbitrary capacity that relies on the
//! `Input` trait's default methods, and a counting wrapper that delegates *every* trait method
//! (so that the wrapped input's overrides stay in force).

use saphyr_parser::input::SkipTabs;
use saphyr_parser::Input;
use std::cell::Cell;
use std::collections::VecDeque;
use std::rc::Rc;

fn is_breakz(c: char) -> bool {
    c == '\n' || c == '\r' || c == '\0'
}

/// Like `BufferedInput`, with capacity `N`; exceeding the capacity panics (as `ArrayDeque` does).
pub struct RingInput<const N: usize, T: Iterator<Item = char>> {
    input: T,
    buffer: VecDeque<char>,
}

impl<const N: usize, T: Iterator<Item = char>> RingInput<N, T> {
    pub fn new(input: T) -> Self {
        Self { input, buffer: VecDeque::with_capacity(N) }
    }
    fn push(&mut self, c: char) {
        assert!(self.buffer.len() < N, "ring buffer capacity exceeded");
        self.buffer.push_back(c);
    }
}

impl<const N: usize, T: Iterator<Item = char>> Input for RingInput<N, T> {
    fn lookahead(&mut self, count: usize) {
        if self.buffer.len() >= count {
            return;
        }
        for _ in 0..(count - self.buffer.len()) {
            let c = self.input.next().unwrap_or('\0');
            self.push(c);
        }
    }
    fn buflen(&self) -> usize {
        self.buffer.len()
    }
    fn bufmaxlen(&self) -> usize {
        N
    }
    fn raw_read_ch(&mut self) -> char {
        self.input.next().unwrap_or('\0')
    }
    fn raw_read_non_breakz_ch(&mut self) -> Option<char> {
        if let Some(c) = self.input.next() {
            if is_breakz(c) {
                self.push(c);
                None
            } else {
                Some(c)
            }
        } else {
            None
        }
    }
    fn skip(&mut self) {
        self.buffer.pop_front();
    }
    fn skip_n(&mut self, count: usize) {
        self.buffer.drain(0..count);
    }
    fn peek(&self) -> char {
        self.buffer[0]
    }
    fn peek_nth(&self, n: usize) -> char {
        self.buffer[n]
    }
}

/// Counts every call of a trait method.
pub struct CountingInput<I: Input> {
    inner: I,
    n: Rc<Cell<u64>>,
}

impl<I: Input> CountingInput<I> {
    pub fn new(inner: I, n: Rc<Cell<u64>>) -> Self {
        Self { inner, n }
    }
    #[inline]
    fn t(&self) {
        self.n.set(self.n.get() + 1);
    }
}

impl<I: Input> Input for CountingInput<I> {
    fn lookahead(&mut self, count: usize) {
        self.t();
        self.inner.lookahead(count)
    }
    fn buflen(&self) -> usize {
        self.t();
        self.inner.buflen()
    }
    fn bufmaxlen(&self) -> usize {
        self.t();
        self.inner.bufmaxlen()
    }
    fn buf_is_empty(&self) -> bool {
        self.t();
        self.inner.buf_is_empty()
    }
    fn raw_read_ch(&mut self) -> char {
        self.t();
        self.inner.raw_read_ch()
    }
    fn raw_read_non_breakz_ch(&mut self) -> Option<char> {
        self.t();
        self.inner.raw_read_non_breakz_ch()
    }
    fn skip(&mut self) {
        self.t();
        self.inner.skip()
    }
    fn skip_n(&mut self, count: usize) {
        self.t();
        self.inner.skip_n(count)
    }
    fn peek(&self) -> char {
        self.t();
        self.inner.peek()
    }
    fn peek_nth(&self, n: usize) -> char {
        self.t();
        self.inner.peek_nth(n)
    }
    fn look_ch(&mut self) -> char {
        self.t();
        self.inner.look_ch()
    }
    fn next_char_is(&self, c: char) -> bool {
        self.t();
        self.inner.next_char_is(c)
    }
    fn nth_char_is(&self, n: usize, c: char) -> bool {
        self.t();
        self.inner.nth_char_is(n, c)
    }
    fn next_2_are(&self, c1: char, c2: char) -> bool {
        self.t();
        self.inner.next_2_are(c1, c2)
    }
    fn next_3_are(&self, c1: char, c2: char, c3: char) -> bool {
        self.t();
        self.inner.next_3_are(c1, c2, c3)
    }
    fn next_is_document_indicator(&self) -> bool {
        self.t();
        self.inner.next_is_document_indicator()
    }
    fn next_is_document_start(&self) -> bool {
        self.t();
        self.inner.next_is_document_start()
    }
    fn next_is_document_end(&self) -> bool {
        self.t();
        self.inner.next_is_document_end()
    }
    fn skip_ws_to_eol(&mut self, skip_tabs: SkipTabs) -> (usize, Result<SkipTabs, &'static str>) {
        self.t();
        self.inner.skip_ws_to_eol(skip_tabs)
    }
    fn next_can_be_plain_scalar(&self, in_flow: bool) -> bool {
        self.t();
        self.inner.next_can_be_plain_scalar(in_flow)
    }
    fn next_is_blank_or_break(&self) -> bool {
        self.t();
        self.inner.next_is_blank_or_break()
    }
    fn next_is_blank_or_breakz(&self) -> bool {
        self.t();
        self.inner.next_is_blank_or_breakz()
    }
    fn next_is_blank(&self) -> bool {
        self.t();
        self.inner.next_is_blank()
    }
    fn next_is_break(&self) -> bool {
        self.t();
        self.inner.next_is_break()
    }
    fn next_is_breakz(&self) -> bool {
        self.t();
        self.inner.next_is_breakz()
    }
    fn next_is_z(&self) -> bool {
        self.t();
        self.inner.next_is_z()
    }
    fn next_is_flow(&self) -> bool {
        self.t();
        self.inner.next_is_flow()
    }
    fn next_is_digit(&self) -> bool {
        self.t();
        self.inner.next_is_digit()
    }
    fn next_is_alpha(&self) -> bool {
        self.t();
        self.inner.next_is_alpha()
    }
    fn skip_while_non_breakz(&mut self) -> usize {
        self.t();
        let n = self.inner.skip_while_non_breakz();
        // a bulk skip is charged per character, so that the measure is comparable across back-ends
        self.n.set(self.n.get() + n as u64);
        n
    }
    fn skip_while_blank(&mut self) -> usize {
        self.t();
        let n = self.inner.skip_while_blank();
        self.n.set(self.n.get() + n as u64);
        n
    }
    fn fetch_while_is_alpha(&mut self, out: &mut String) -> usize {
        self.t();
        let n = self.inner.fetch_while_is_alpha(out);
        self.n.set(self.n.get() + n as u64);
        n
    }
}
