#!/bin/sh
# run every check of the manifest at the given tier (default quick); prints one summary line each
tier=${1:-quick}
cd "$(dirname "$0")"
rc=0
for p in C01 C02 C03 C04 C05 C06 C07 C08 C09 C10 C11 C12 C13 C14 C15 C16 C17 C18 C19 C20; do
  ./check $p --tier $tier | grep -v '^KNOWN-FINDING' | tail -3 | cut -c1-220 || rc=1
done
exit $rc
