#!/bin/sh
# Build the framework from files on disk only (offline): the Lean library with all proofs, the
# model driver, and the Rust harness against /repo's current working tree.
set -e
cd "$(dirname "$0")"
export CARGO_NET_OFFLINE=true
(cd lean && lake build && lake build saphyr_model)
(cd harness && cargo build --release --offline)
test -s corpus/suite.jsonl
echo setup-ok
